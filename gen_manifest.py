#!/venv/bin/python
"""regenerates MANIFEST.json from the property modules that exist (keeps it valid at all times)"""
import json, os, glob, importlib, sys
HERE = os.path.dirname(os.path.abspath(__file__))
sys.path.insert(0, HERE)
from vsched.gen import GEN_NOTE  # noqa: E402
props = [json.loads(l) for l in open(os.path.join(HERE, 'properties.jsonl'))]
TEXT = {
    'default': ('stateless bounded model checking of the real implementation: every execution of the generated scenario families with at most L deviations '
                'from the default schedule is run on a virtual-time asyncio loop whose only nondeterminism is an explorer-owned choice sequence; the property '
                'oracle is evaluated on harness-side records of every execution. Right level because the property quantifies over schedules/histories of a '
                'single-threaded asyncio library whose code is directly executable under a controlled scheduler.'),
}
checks, na = [], []
for p in props:
    pid = p['id']
    path = os.path.join(HERE, 'vsched', 'props', pid.lower() + '.py')
    if not os.path.exists(path):
        na.append(dict(property_id=pid, reason='check not built yet in this session (planned, see DESIGN.md section 4); not claimed until its machinery exists'))
        continue
    src = open(path).read()
    import importlib
    mod = importlib.import_module('vsched.props.' + pid.lower())
    rule = getattr(mod, 'RULE', '') + (GEN_NOTE if 'gen.family(' in open(mod.__file__).read() else '')
    assumptions = list(getattr(mod, 'ASSUMPTIONS', []))
    level = 'exploration' if "LEVEL = 'exploration'" in src else 'model_checking'
    tech = {'model_checking': 'stateless deviation-bounded model checking of the implementation (exhaustive schedule/choice enumeration on a virtual asyncio loop)',
            'exploration': 'exhaustive enumeration of a finite input alphabet against an independent reference model'}[level]
    note = ('trusted base: CPython asyncio BaseEventLoop with time() and selector.select() overridden; harness-side seams for EventBus.all_instances order, '
            'bubus.models.datetime, psutil; oracle reads harness records only. Bounded: scenario grammar and deviation bound are in the evidence file.')
    checks.append(dict(property_id=pid, quick_cmd=f'./check {pid} --tier quick', thorough_cmd=f'./check {pid} --tier thorough',
                       evidence_file=f'/verif/evidence/{pid}.json', replay_cmd_template='./check --replay {path}', engine='vsched',
                       level_claimed=dict(category=level, text=(TEXT['default'] + ' Explored here: ' + rule) if level == 'model_checking' else
                                          'complete enumeration of a finite alphabet of declared result types x returned values and of handler-outcome sequences x accessor flags, '
                                          'each compared with an independent reference model written from the README; sequential code, so input enumeration is the model-checking analogue. Explored here: ' + rule,
                                          design_ref=f'DESIGN.md section 4 ({pid})'),
                       level_note=note + (' Property-specific assumptions: ' + '; '.join(assumptions) if assumptions else ''), technique=tech))
m = dict(version=1,
         setup_cmd='./check --selftest',
         hooks=dict(guard='BUBUS_VERIF', enable='no source hooks are needed: every seam is a harness-side substitution of module attributes (checks export BUBUS_VERIF=1 for uniformity, nothing in /repo reads it)',
                    baseline_off_cmd='cd /repo && /venv/bin/python -m pytest -ra -q -p no:cacheprovider --timeout=900 --continue-on-collection-errors',
                    source_commits=[], add_only=True),
         engines=[dict(name='vsched', path='/verif/vsched', serves_properties=[c['property_id'] for c in checks],
                       kind_free_text='hand-written stateless explicit-schedule model checker for asyncio programs: virtual-time BaseEventLoop subclass, deviation-bounded level-wise exploration, 16-process pool')],
         checks=checks, not_applicable=na,
         notes='Genuine defects found are repaired by "fix:" commits in /repo and listed in /verif/known_findings.json; see DESIGN.md section 5.')
json.dump(m, open(os.path.join(HERE, 'MANIFEST.json'), 'w'), indent=1)
print(len(checks), 'checks;', len(na), 'not yet claimed')
