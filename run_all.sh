#!/bin/sh
# run every claimed check's quick (or $1) tier; summary line per property
tier=${1:-quick}
cd "$(dirname "$0")"
rc=0
for p in C01 C02 C03 C04 C05 C06 C07 C08 C09 C10 C11 C12 C13 C14 C15 C16 C17 C18 C19 C20; do
  s=$(date +%s)
  out=$(./check $p --tier $tier 2>&1); code=$?
  e=$(date +%s)
  echo "$p exit=$code $((e-s))s $(echo "$out" | head -1 | cut -c1-200)"
  [ $code -ne 0 ] && { rc=1; echo "$out" | grep -E "VIOLATION|HARNESS|KNOWN" | head -4 | cut -c1-250; }
done
exit $rc
