#!/bin/sh
# usage: run_some.sh <tier> PROP...   (like run_all.sh, for a subset)
tier=$1; shift
cd "$(dirname "$0")"
rc=0
for p in "$@"; do
  s=$(date +%s)
  out=$(./check $p --tier $tier 2>&1); code=$?
  e=$(date +%s)
  echo "$p exit=$code $((e-s))s $(echo "$out" | head -1 | cut -c1-200)"
  [ $code -ne 0 ] && { rc=1; echo "$out" | grep -E "VIOLATION|HARNESS|KNOWN" | head -4 | cut -c1-250; }
done
exit $rc
