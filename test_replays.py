"""Plain pytest wrapper around the replay artefacts: every file under replays/ (written by a check that reported a violation) is
re-executed without the explorer and must no longer violate its recorded clause on the current tree.

    /venv/bin/python -m pytest -q /verif/test_replays.py            # all artefacts present
    VERIF_REPLAY=/verif/replays/C04-xxxx.json /venv/bin/python -m pytest -q /verif/test_replays.py
"""
import glob
import os
import subprocess

import pytest

HERE = os.path.dirname(os.path.abspath(__file__))
FILES = [os.environ['VERIF_REPLAY']] if os.environ.get('VERIF_REPLAY') else sorted(glob.glob(os.path.join(HERE, 'replays', '*.json')))


@pytest.mark.parametrize('path', FILES or [None])
def test_replay(path):
    if path is None:
        pytest.skip('no replay artefacts')
    r = subprocess.run([os.path.join(HERE, 'check'), '--replay', path], capture_output=True, text=True, timeout=300)
    assert r.returncode == 0, r.stdout[-2000:]
