#!/bin/sh
# run the pinned suite on a scratch worktree of /repo HEAD (so /repo stays editable); log -> /tmp/suite_<sha>.log
sha=$(git -C /repo rev-parse --short HEAD)
wt=/tmp/wt_suite_$sha
git -C /repo worktree add -f --detach $wt HEAD >/dev/null 2>&1
cd $wt && timeout 1200 /venv/bin/python -m pytest -q -p no:cacheprovider --timeout=900 > /tmp/suite_$sha.log 2>&1
echo "EXIT $?" >> /tmp/suite_$sha.log
/venv/bin/python -c "import bubus,sys; print(bubus.__file__)" >> /tmp/suite_$sha.log 2>&1
cd / && git -C /repo worktree remove --force $wt
