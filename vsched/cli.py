"""vsched.cli -- ./check <PROP> --tier quick|thorough   |   ./check --replay <file>

exit 0: property held on everything explored (KNOWN-FINDING lines possible); 1: VIOLATION; 2: harness error.
"""
from __future__ import annotations

import argparse
import fnmatch
import hashlib
import json
import multiprocessing as mp
import os
import sys
import time

HERE = os.path.dirname(os.path.dirname(os.path.abspath(__file__)))
KNOWN_FILE = os.path.join(HERE, 'known_findings.json')


def load_known(prop):
    try:
        ents = json.load(open(KNOWN_FILE))
    except FileNotFoundError:
        return []
    out = []
    for e in ents:
        if e.get('status') != 'known':
            continue  # 'fixed' entries suppress nothing
        for m in e.get('match', []):
            if m.get('property', e.get('property')) == prop:
                out.append((e['id'], m, e.get('what', '')))
    return out


def make_classifier(prop):
    known = load_known(prop)

    def classify(family, viol):
        tags = viol.get('tags', {})
        for eid, m, _ in known:
            if not fnmatch.fnmatch(family, m.get('family', '*')):
                continue
            if m.get('clause') != viol['clause']:
                continue
            if all(tags.get(k) == v for k, v in m.get('where', {}).items()):
                return eid
        return None

    return classify, {eid: what for eid, _, what in known}


_CLASSIFY = None


def _init_worker(prop):
    global _CLASSIFY
    os.environ.setdefault('PYTHONHASHSEED', '0')
    from . import seams
    seams.boot()
    _CLASSIFY = make_classifier(prop)[0]


def _work(spec):
    from .engine import explore_scenario
    return explore_scenario(spec, _CLASSIFY)


def write_replay(prop, spec, v):
    # artefacts of a run against a scratch copy of the library (VERIF_REPO: mutant / seeded-change runs) go next to that run's evidence, not into
    # /verif/replays: they describe another tree and diverge when replayed against /repo
    rdir = os.path.join(os.environ['VERIF_EVIDENCE_DIR'], 'replays') if (os.environ.get('VERIF_REPO') and os.environ.get('VERIF_EVIDENCE_DIR')) else os.path.join(HERE, 'replays')
    os.makedirs(rdir, exist_ok=True)
    body = dict(property=prop, engine='vsched-1', family=spec['family'], scenario=spec, choices=v['prefix'], points=v['points'],
                clause=v['clause'], detail=v['detail'], tags=v['tags'], level=v['level'], sched=v.get('sched'), trace=v.get('trace'))
    h = hashlib.blake2b(json.dumps([spec, v['prefix'], v['clause']], sort_keys=True, default=str).encode(), digest_size=6).hexdigest()
    path = os.path.join(rdir, f'{prop}-{h}.json')
    with open(path, 'w') as f:
        json.dump(body, f, indent=1, default=str)
    return path


def run_check(prop, tier, seed, jobs):
    from . import seams
    seams.boot()
    from .engine import prop_module
    mod = prop_module(prop)
    t0 = time.time()
    classify, known_what = make_classifier(prop)
    if hasattr(mod, 'run_custom'):
        agg = mod.run_custom(tier, seed, classify, jobs)
    else:
        specs = mod.families(tier)
        flt = os.environ.get('VERIF_FAMILY')  # debugging aid: restrict to families whose name contains this string (not used by registered commands)
        if flt:
            specs = [x for x in specs if flt in x['family']]
        skip = os.environ.get('VERIF_SKIP_FAMILY')  # debugging aid, the other way round
        if skip:
            specs = [x for x in specs if skip not in x['family']]
        # the seed only rotates the order in which scenarios are visited; the set explored is the same
        if specs:
            k = seed % len(specs)
            specs = specs[k:] + specs[:k]
        global DISTINCT_BY_SCENARIO
        DISTINCT_BY_SCENARIO = bool(getattr(mod, 'DISTINCT_BY_SCENARIO', False))
        agg = explore_all(prop, specs, jobs)
    agg['wall'] = time.time() - t0
    return finish(prop, tier, seed, mod, agg, known_what)


DISTINCT_BY_SCENARIO = False


def explore_all(prop, specs, jobs):
    agg = dict(scenarios=len(specs), executions=0, points=0, transitions=0, traces=set(), triggered=0, verdicts={},
               violations=[], n_violations=0, errors=[], known={}, capped=[], families={}, samples=[], collapsed=0,
               min_completed_level=None, levels={}, orders=set(), clauses={})
    ctx = mp.get_context('fork')
    with ctx.Pool(jobs, initializer=_init_worker, initargs=(prop,)) as pool:
        by_id = {s['id']: s for s in specs}
        for summ in pool.imap_unordered(_work, specs, chunksize=1):
            fam = agg['families'].setdefault(summ['family'], dict(scenarios=0, executions=0, triggered=0, distinct=set(), violations=0,
                                                                  completed_level=None, capped=0, sample=None))
            fam['scenarios'] += 1
            fam['executions'] += summ['executions']
            fam['triggered'] += summ['triggered']
            fam['distinct'].update((summ['id'], t) if DISTINCT_BY_SCENARIO else t for t in summ['traces'])
            fam['violations'] += summ['n_violations']
            cl = summ['completed_level']
            fam['completed_level'] = cl if fam['completed_level'] is None else min(fam['completed_level'], cl)
            if summ['capped']:
                fam['capped'] += 1
                agg['capped'].append(summ['id'])
            if fam['sample'] is None or (summ['sample'] and summ['sample'].get('triggered') and not fam['sample'].get('triggered')):
                fam['sample'] = summ['sample']
            agg['executions'] += summ['executions']
            agg['points'] += summ['points']
            agg['transitions'] += summ['transitions']
            agg['collapsed'] += summ['collapsed']
            agg['truncated'] = agg.get('truncated', 0) + summ.get('truncated', 0)
            agg['traces'].update((summ['id'] if DISTINCT_BY_SCENARIO else summ['family'], t) for t in summ['traces'])
            agg['triggered'] += summ['triggered']
            for k, n in summ['verdicts'].items():
                agg['verdicts'][k] = agg['verdicts'].get(k, 0) + n
            for i, n in enumerate(summ['levels']):
                agg['levels'][i] = agg['levels'].get(i, 0) + n
            agg['errors'] += summ['errors']
            for c, n in summ['clauses'].items():
                agg['clauses'][c] = agg['clauses'].get(c, 0) + n
            agg['n_violations'] += summ['n_violations']
            for v in summ['violations']:
                agg['violations'].append((by_id[summ['id']], v))
            for eid, (n, sample) in summ['known'].items():
                k = agg['known'].setdefault(eid, dict(executions=0, scenarios=0, sample=sample))
                k['executions'] += n
                k['scenarios'] += 1
            o = by_id[summ['id']].get('scn', {}).get('order')
            if o:
                agg['orders'].add(tuple(o))
    return agg


def finish(prop, tier, seed, mod, agg, known_what):
    level = getattr(mod, 'LEVEL', 'model_checking')
    fams = {}
    vacuous = []
    for name, f in agg['families'].items():
        fams[name] = dict(scenarios=f['scenarios'], executions=f['executions'], triggered=f['triggered'],
                          distinct_nontrivial=len(f['distinct']), violations=f['violations'],
                          completed_deviation_level=f['completed_level'], scenarios_capped=f['capped'])
        if f['triggered'] == 0 and not getattr(mod, 'ALLOW_UNTRIGGERED', False):
            vacuous.append(name)
    samples = [f['sample'] for f in agg['families'].values() if f.get('sample')][:3]
    if not samples:
        samples = agg.get('samples', [])[:3]
    samples = samples or agg.get('samples', [])
    known_lines = []
    for eid, k in sorted(agg['known'].items()):
        known_lines.append(f'KNOWN-FINDING: property={prop} {eid} {known_what.get(eid, "")} ({k["executions"]} executions in {k["scenarios"]} scenarios)')
    replay_paths = []
    seen_clause = {}
    for spec, v in agg['violations']:
        key = (spec['family'], v['clause'])
        if seen_clause.get(key, 0) >= 2:
            continue
        seen_clause[key] = seen_clause.get(key, 0) + 1
        replay_paths.append((write_replay(prop, spec, v), spec, v))
    cov = dict(
        evaluations=agg['executions'],
        distinct_nontrivial=len(agg['traces']),
        rule=getattr(mod, 'RULE', '') + (__import__('vsched.gen', fromlist=['GEN_NOTE']).GEN_NOTE if 'gen.family(' in open(mod.__file__).read() else ''),
        samples=samples,
        states=agg['points'] + agg['executions'],
        transitions=agg['transitions'],
        traces_validated_against_impl=agg['executions'],
        exhaustive=not agg['capped'],
        scenarios=agg['scenarios'],
        triggered_executions=agg['triggered'],
        executions_by_deviation_level={str(k): v for k, v in sorted(agg['levels'].items())},
        completed_deviation_level=min([f['completed_level'] for f in agg['families'].values() if f['completed_level'] is not None], default=None),
        scenarios_capped=len(agg['capped']),
        spin_collapsed_points=agg['collapsed'],
        executions_with_choice_points_beyond_cap=agg.get('truncated', 0),
        bus_order_permutations=len(agg.get('orders', ())),
        verdicts=agg['verdicts'],
        families=fams,
        known_findings_matched={eid: dict(executions=k['executions'], scenarios=k['scenarios'], sample=k['sample']) for eid, k in agg['known'].items()},
        states_note='states = distinct choice-tree nodes visited (choice points + complete executions); transitions = choice edges executed; every execution is a run of the real bubus code',
    )
    cov.update(agg.get('extra_coverage', {}))
    ev = dict(property_id=prop, tier=tier, seed=seed, level=level, coverage=cov,
              assumptions=list(getattr(mod, 'ASSUMPTIONS', [])) + COMMON_ASSUMPTIONS,
              wall_s=round(agg['wall'], 2), violations=agg['n_violations'])
    evdir = os.environ.get('VERIF_EVIDENCE_DIR') or os.path.join(HERE, 'evidence')
    os.makedirs(evdir, exist_ok=True)
    with open(os.path.join(evdir, f'{prop}.json'), 'w') as f:
        json.dump(ev, f, indent=1, default=str)
    print(f'[{prop} {tier}] scenarios={agg["scenarios"]} executions={agg["executions"]} choice_points={agg["points"]} '
          f'triggered={agg["triggered"]} distinct_nontrivial={len(agg["traces"])} verdicts={agg["verdicts"]} '
          f'completed_level={cov["completed_deviation_level"]} capped={len(agg["capped"])} wall={agg["wall"]:.1f}s')
    for name, f in sorted(fams.items()):
        print(f'   family {name}: scenarios={f["scenarios"]} exec={f["executions"]} triggered={f["triggered"]} '
              f'distinct={f["distinct_nontrivial"]} viol={f["violations"]} L={f["completed_deviation_level"]}')
    for line in known_lines:
        print(line)
    if agg['errors']:
        for e in agg['errors'][:5]:
            print('HARNESS-ERROR:', e)
        print(f'[{prop}] {len(agg["errors"])} harness errors')
        return 2
    if vacuous:
        print(f'HARNESS-ERROR: vacuous families (trigger never fired): {vacuous}')
        return 2
    if replay_paths:
        for path, spec, v in replay_paths:
            print(f'VIOLATION property={prop} replay={path}')
            print(f'   family={spec["family"]} scenario={spec["id"]} clause={v["clause"]} tags={v["tags"]} level={v["level"]}\n   {str(v["detail"])[:300]}')
        print(f'[{prop}] {agg["n_violations"]} violating executions; by clause: {agg.get("clauses")}')
        return 1
    if agg['n_violations']:
        print(f'VIOLATION property={prop} replay=none')
        return 1
    return 0


COMMON_ASSUMPTIONS = [
    'asyncio behaviour is CPython BaseEventLoop with only time() and the selector select() overridden (virtual clock, explorer-owned arrivals)',
    'computation is instantaneous: a library timer never fires in the middle of a callback burst; consecutive identical busy points are collapsed (both only remove schedules)',
    'statement is bounded: all executions of the listed scenario families with at most completed_deviation_level deviations from the default schedule',
    'EventBus.all_instances order, bubus.models.datetime, psutil and (C17) anyio file I/O are harness-side substitutions; process-global lock/semaphore registries are reset per execution',
]


def replay(path):
    from . import seams
    seams.boot()
    from .engine import prop_module, run_one
    body = json.load(open(path))
    spec = body['scenario']
    mod = prop_module(body['property'])
    if hasattr(mod, 'replay_custom'):
        return mod.replay_custom(body)
    pts = [tuple(p) for p in body['points']] if body.get('points') else None
    out = run_one(spec, tuple(body['choices']), pts)
    viols = mod.oracle(spec, out['result'])
    print(f'replay {path}: verdict={out["verdict"]} choices={out["taken"]}')
    for r in out['result'].get('log', []):
        if r[2] != 'state' or os.environ.get('VERIF_VERBOSE'):
            print('   ', r)
    hit = [v for v in viols if v['clause'] == body['clause']]
    for v in viols:
        print(f'  violated: {v["clause"]} {v.get("tags")} {str(v.get("detail"))[:300]}')
    if hit:
        print(f'VIOLATION property={body["property"]} replay={path}')
        return 1
    print('no violation of the recorded clause on this tree')
    return 0


def main(argv=None):
    ap = argparse.ArgumentParser()
    ap.add_argument('prop', nargs='?')
    ap.add_argument('--tier', default=os.environ.get('VERIF_TIER', 'quick'))
    ap.add_argument('--replay')
    ap.add_argument('--selftest', action='store_true')
    ap.add_argument('--jobs', type=int, default=int(os.environ.get('VERIF_JOBS', '0')) or min(16, os.cpu_count() or 4))
    a = ap.parse_args(argv)
    seed = int(os.environ.get('VERIF_SEED', '0') or 0)
    try:
        if a.selftest:
            from . import seams
            seams.boot()
            from .props import toy
            ok = toy.selftest()
            print('selftest', 'ok' if ok else 'FAILED')
            return 0 if ok else 2
        if a.replay:
            return replay(a.replay)
        if not a.prop:
            ap.error('property id required')
        return run_check(a.prop.upper(), a.tier, seed, a.jobs)
    except SystemExit:
        raise
    except BaseException as e:
        import traceback
        traceback.print_exc()
        print(f'HARNESS-ERROR: {type(e).__name__}: {e}')
        return 2


if __name__ == '__main__':
    sys.exit(main())
