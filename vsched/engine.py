"""vsched.engine -- run one execution of a scenario under a choice prefix; explore a scenario level by level.

A *scenario* is a picklable dict ``spec``; ``spec['prop']`` names the property module (vsched.props.<prop>) which
provides ``make(spec, loop) -> world`` (``world.main()`` coroutine, ``world.result(verdict) -> dict``),
``oracle(spec, res) -> [violation dict]`` and ``trigger(spec, res) -> bool``.
"""
from __future__ import annotations

import asyncio
import contextvars
import gc
import hashlib
import importlib
import sys
import time
import traceback
from asyncio import events

from .loop import Chooser, Deadlock, Divergence, Horizon, Livelock, VLoop

_unraisable: list = []


def _hook(u):
    _unraisable.append(repr(u.exc_value)[:200])


def prop_module(name: str):
    return importlib.import_module(f'vsched.props.{name.lower()}')


DEFAULT_CFG = dict(busy_timers=0, max_points=600, horizon=25.0, window=2.0, max_targets=6, busy=True, spin_collapse=2, bound=2, cap=20000,
                   free=(), max_iters=60000)


def cfg_of(spec) -> dict:
    c = dict(DEFAULT_CFG)
    c.update(spec.get('cfg', {}))
    return c


def run_one(spec, prefix=(), expect=None, keep_world=False):
    """One execution on a fresh loop / context / world.  Returns a dict."""
    from . import seams

    cfg = cfg_of(spec)
    mod = prop_module(spec['prop'])
    seams.reset_globals()
    ch = Chooser(prefix, expect, cfg['max_points'])
    loop = VLoop(ch, horizon=cfg['horizon'], window=cfg['window'], max_targets=cfg['max_targets'], busy=cfg['busy'],
                 max_iters=cfg['max_iters'], spin_collapse=cfg['spin_collapse'], busy_timers=cfg['busy_timers'])
    ctx = contextvars.Context()
    out: dict = {}

    def go():
        world = None
        verdict = None
        try:
            old_hook = sys.unraisablehook
            sys.unraisablehook = _hook
            world = mod.make(spec, loop)
            custom = getattr(world, 'run', None)
            if custom is not None:
                verdict = custom()  # the world drives the loop itself (C16 shutdown sequence, C20 successive loops)
            else:
                main = loop.create_task(world.main(), name='vsched-main')
                main._log_destroy_pending = False
                try:
                    loop.run_until_complete(main)
                    verdict = ('done', None)
                except Horizon as e:
                    verdict = ('hang', str(e))
                except Deadlock as e:
                    verdict = ('deadlock', str(e))
                except Livelock as e:
                    verdict = ('livelock', str(e))
                except Divergence:
                    raise
                except BaseException as e:  # main raised: the world decides what that means
                    verdict = ('raised', f'{type(e).__name__}: {e}')
                    out['main_tb'] = traceback.format_exc()[-1500:]
            out['verdict'] = verdict
            out['result'] = world.result(verdict)
        finally:
            ch.muted = True
            try:
                _teardown(loop, world)
            except BaseException:
                pass
            sys.unraisablehook = old_hook
            events._set_running_loop(None)

    ctx.run(go)
    out['points'] = ch.points
    out['taken'] = ch.taken
    out['sched'] = loop.sched_trace
    out['collapsed'] = loop.collapsed
    out['truncated'] = ch.truncated
    out['iters'] = loop.iters
    out['vtime'] = loop.now()
    if keep_world:
        out['loop'] = loop
    return out


def _teardown(loop, world):
    """forced teardown: stop flags, cancel everything, bounded drain; never a verdict"""
    loop.horizon = float('inf')
    loop.stalled = True
    loop.macro_target = None
    if world is not None:
        td = getattr(world, 'teardown', None)
        if td is not None:
            try:
                td()
            except BaseException:
                pass
    for _ in range(6):
        tasks = [t for t in asyncio.all_tasks(loop) if not t.done()]
        if not tasks:
            break
        for t in tasks:
            t._log_destroy_pending = False
            t.cancel()
        loop.max_iters = loop.iters + 400
        try:
            loop.run_until_complete(_drain(loop, 40))
        except BaseException:
            break
    for t in asyncio.all_tasks(loop):
        t._log_destroy_pending = False
    for w in loop.envwaits:
        if not w[1].done():
            w[1].cancel()
    try:
        loop._ready.clear()
        loop._scheduled.clear()
        loop.close()
    except BaseException:
        pass


async def _drain(loop, n):
    for _ in range(n):
        await asyncio.sleep(0)


def trace_hash(res) -> str:
    return hashlib.blake2b(repr(res.get('trace_key')).encode(), digest_size=8).hexdigest()


def explore_scenario(spec, classify=None, max_viol=3):
    """All executions of one scenario with at most cfg.bound deviations, level by level.  Returns a summary dict."""
    cfg = cfg_of(spec)
    mod = prop_module(spec['prop'])
    bound, cap, free = cfg['bound'], cfg['cap'], set(cfg['free'])
    t0 = time.time()
    summ = dict(id=spec['id'], family=spec['family'], executions=0, points=0, transitions=0, levels=[], capped=False,
                completed_level=-1, violations=[], n_violations=0, traces=set(), triggered=0, verdicts={},
                collapsed=0, truncated=0, sample=None, errors=[], known={}, clauses={})
    level = [((), None)]
    L = 0
    n_exec = 0
    while level and L <= bound:
        nxt = []
        i = 0
        lvl_exec = 0
        while i < len(level):  # the list may grow (free-cost children join the same level)
            prefix, expect = level[i]
            i += 1
            if n_exec >= cap:
                summ['capped'] = True
                break
            try:
                out = run_one(spec, prefix, expect)
            except Divergence as e:
                summ['errors'].append(f'nondeterminism not owned: {e} prefix={list(prefix)}')
                continue
            except BaseException as e:
                summ['errors'].append(f'harness error: {type(e).__name__}: {e} prefix={list(prefix)}\n{traceback.format_exc()[-1200:]}')
                continue
            n_exec += 1
            lvl_exec += 1
            if n_exec % 200 == 0:
                gc.collect()
            res = out['result']
            pts, taken = out['points'], out['taken']
            summ['points'] += max(0, len(pts) - len(prefix))
            summ['collapsed'] += out['collapsed']
            summ['truncated'] += 1 if out['truncated'] else 0
            v = out['verdict'][0]
            summ['verdicts'][v] = summ['verdicts'].get(v, 0) + 1
            try:
                viols = mod.oracle(spec, res)
                trig = mod.trigger(spec, res)
            except BaseException as e:
                summ['errors'].append(f'oracle error: {type(e).__name__}: {e} prefix={list(prefix)}\n{traceback.format_exc()[-1200:]}')
                continue
            if trig:
                summ['triggered'] += 1
                summ['traces'].add(trace_hash(res))
            if summ['sample'] is None or (trig and not summ['sample'].get('triggered')):
                summ['sample'] = dict(scenario=spec['id'], choices=list(taken), sched=out['sched'][:40],
                                      trace=[repr(r) for r in res.get('log', [])[:60]], verdict=out['verdict'],
                                      triggered=bool(trig))
            if viols:
                uncovered = []
                for x in viols:
                    ent = classify(spec['family'], x) if classify else None
                    if ent is None:
                        uncovered.append(x)
                    else:
                        k = summ['known'].setdefault(ent, [0, None])
                        k[0] += 1
                        if k[1] is None:
                            k[1] = dict(scenario=spec['id'], clause=x['clause'], tags=x.get('tags', {}), choices=list(taken))
                if uncovered:
                    summ['n_violations'] += 1
                    for y in uncovered:
                        summ['clauses'][y['clause']] = summ['clauses'].get(y['clause'], 0) + 1
                    x = uncovered[0]
                    kept = [y for y in summ['violations'] if y['clause'] == x['clause']]
                    if len(summ['violations']) < max_viol * 4 and len(kept) < max_viol:
                        # proof obligation: the same schedule must fail the same way every time
                        stable = True
                        for _ in range(2):
                            o2 = run_one(spec, tuple(taken), pts)
                            if trace_hash(o2['result']) != trace_hash(res):
                                stable = False
                        if not stable:
                            summ['errors'].append(f'violation not reproducible on replay (nondeterminism not owned): {x["clause"]} choices={list(taken)}')
                        else:
                            summ['violations'].append(dict(clause=x['clause'], detail=x.get('detail'), tags=x.get('tags', {}),
                                                           all=[(y['clause'], y.get('tags', {})) for y in uncovered],
                                                           prefix=list(taken), points=[list(p) for p in pts], level=L,
                                                           sched=out['sched'][:60], trace=[repr(r) for r in res.get('log', [])[:200]]))
            summ['transitions'] += len(taken) - len(prefix) + (1 if prefix else 0)
            # children: every alternative at every choice point after the prefix
            for j in range(len(prefix), len(taken)):
                kind, n = pts[j]
                c = 0 if kind in free else 1
                if L + c > bound:
                    continue
                for alt in range(1, n):
                    child = (tuple(taken[:j]) + (alt,), pts)
                    (level if c == 0 else nxt).append(child)
        summ['levels'].append(lvl_exec)
        if summ['capped']:
            break
        summ['completed_level'] = L
        level = nxt
        L += 1
    if not summ['capped']:
        summ['completed_level'] = bound  # the choice tree was exhausted within the bound
    summ['executions'] = n_exec
    summ['wall'] = time.time() - t0
    summ['traces'] = list(summ['traces'])
    return summ


def run_plain(coro_factory, horizon=50.0):
    """run one coroutine to completion on a fresh virtual loop with the default schedule (sequential code: no choices)"""
    from . import seams

    seams.reset_globals()
    ch = Chooser()
    loop = VLoop(ch, horizon=horizon)
    ctx = contextvars.Context()
    box = {}

    def go():
        old_hook = sys.unraisablehook
        sys.unraisablehook = _hook
        try:
            t = loop.create_task(coro_factory(loop))
            t._log_destroy_pending = False
            box['value'] = loop.run_until_complete(t)
        finally:
            ch.muted = True
            try:
                _teardown(loop, None)
            except BaseException:
                pass
            sys.unraisablehook = old_hook
            events._set_running_loop(None)

    ctx.run(go)
    return box.get('value')
