"""vsched.gen -- one grammar-generated scenario corpus shared by the bus properties.

The hand-made families of each property enumerate the shapes its author thought of; the seeded-change waves showed that what they
miss is almost always a *combination* nobody wrote down (parallel bus + awaited child on another bus + failing sibling, ...).
This module enumerates, completely up to a size bound, the product

  bus configuration  x  programs of the (1-2) handlers of the root event  x  programs of the (1-2) handlers of its child
                     x  root time-out  x  (thorough) an external dispatcher racing with everything

and every bus property evaluates its own oracle on the same corpus (family ``cNN.generated``).  No sampling: the quick tier is a
sub-grammar (smaller alphabets), the thorough tier the full product.
"""
from __future__ import annotations

import itertools

GEN_NOTE = (" Also judged by this property's oracle: the grammar-generated corpus shared by the bus properties (vsched/gen.py, DESIGN.md section 10: bus configuration x handler programs of a root event and of its child x time-out; every schedule with <= 1 deviation, thorough: <= 2 on the sub-grammar, <= 1 on the full grammar).")

# programs of a handler of the root event P; {cb} = bus of the child
P_PROGS = {
    'ret': [('ret', 1)],
    'pause': [('pause',)],
    'raise': [('raise', 'ValueError')],
    'pause_raise': [('pause',), ('raise', 'Custom')],
    'ff': [('disp', '{cb}', 'C', 'ff')],
    'ff_pause': [('disp', '{cb}', 'C', 'ff'), ('pause',)],
    'aw': [('disp', '{cb}', 'C', 'await')],
    'aw_pause': [('disp', '{cb}', 'C', 'await'), ('pause',)],
    'late': [('disp', '{cb}', 'C', 'late'), ('pause',), ('await', 'C')],
    'pause_aw': [('pause',), ('disp', '{cb}', 'C', 'await')],
    'aw_aw': [('disp', '{cb}', 'C', 'await'), ('disp', '{cb}', 'C2', 'await')],
    'ff_aw': [('disp', '{cb}', 'C', 'ff'), ('disp', '{cb}', 'C2', 'await')],
    'tmo_aw': [('await_tmo', '{cb}', 'C', 0.5), ('pause',)],
    'aw_then_ff': [('try_await', '{cb}', 'C', 'await'), ('disp', '{cb}', 'C2', 'ff'), ('pause',)],
    'pause_raise_tmo': [('pause',), ('raise', 'TimeoutError')],
}
C_PROGS = {
    'ret': [('ret', 2)],
    'pause': [('pause',)],
    'raise': [('pause',), ('raise', 'RuntimeError')],
    'g_aw': [('disp', '{cb}', 'G', 'await')],
    'g_ff': [('disp', '{cb}', 'G', 'ff'), ('pause',)],
    'ga_aw': [('disp', 'A', 'G', 'await')],  # (only generated when the child lives on B) the child's handler crosses back to the root's bus and waits there
    'pause_pause': [('pause',), ('pause',)],
}
QUICK_P1 = ['pause', 'ff_pause', 'aw', 'aw_pause', 'late', 'pause_aw', 'aw_then_ff']
QUICK_P2 = [None, 'pause', 'aw', 'pause_raise', 'pause_raise_tmo']
QUICK_C1 = ['ret', 'pause', 'g_aw', 'g_ff', 'raise', 'ga_aw']
QUICK_C2 = [None, 'pause']


def _subst(prog, cb):
    body = [tuple(cb if x == '{cb}' else x for x in op) for op in prog]
    tail = [] if (body and body[-1][0] in ('ret', 'raise')) else [('bus?',)]
    return [('bus?',)] + body[:-1] + ([('bus?',)] if body and body[-1][0] in ('ret', 'raise') else []) + body[-1:] + tail


def uses_child(p):
    return p is not None and any(op[0] in ('disp', 'await_tmo') for op in P_PROGS[p])


def scenarios(grammar, *, timeouts=(None,), allow_raise=True, allow_tmo_await=True, allow_parallel=True, allow_forward=True, racing=False, main_mode='ff'):
    """yields (sid, scn, meta).  meta: dict(cb, par_a, par_b, fwd, p1, p2, c1, c2, tp).  grammar: 'quick' (sub-alphabets) | 'full'"""
    deep = grammar == 'full'
    p1s = list(P_PROGS) if deep else QUICK_P1
    p2s = [None, 'pause', 'aw', 'pause_raise', 'pause_raise_tmo', 'ff_pause', 'pause_aw', 'raise', 'tmo_aw'] if deep else QUICK_P2
    c1s = list(C_PROGS) if deep else QUICK_C1
    c2s = [None, 'pause', 'raise'] if deep else QUICK_C2
    configs = []
    for cb, par_a, par_b, fwd in itertools.product('AB', (False, True), (False, True), (False, True)):
        has_b = cb == 'B' or fwd
        if par_b and not has_b:
            continue
        if (par_a or par_b) and not allow_parallel:
            continue
        if fwd and not allow_forward:
            continue
        if not deep and par_a and par_b:
            continue
        configs.append((cb, par_a, par_b, fwd, has_b))
    for (cb, par_a, par_b, fwd, has_b), p1, p2, tp in itertools.product(configs, p1s, p2s, timeouts):
        progs = [p for p in (p1, p2) if p]
        if not allow_raise and any('raise' in p for p in progs):
            continue
        if not allow_tmo_await and any(p == 'tmo_aw' for p in progs):
            continue
        if p2 is not None and not uses_child(p1) and not uses_child(p2):
            continue  # two handlers that never dispatch: nothing the hand-made families do not already have
        child = uses_child(p1) or uses_child(p2)
        if tp is not None and not deep and (not child or p2 in ('pause_raise_tmo', 'pause')):
            continue  # quick tier: the time-out slices only where a child is involved
        if not child and (cb == 'B' and not fwd):
            continue
        if deep and p2 is not None and p1 > p2 and not par_a:
            pass  # order of handlers matters on a serial bus: keep both orders
        for c1, c2 in (itertools.product(c1s, c2s) if child else [('ret', None)]):
            if not allow_raise and any(c and 'raise' in c for c in (c1, c2)):
                continue
            if not deep and c2 is not None and c1 in ('g_ff',):
                continue
            if cb == 'A' and 'ga_aw' in (c1, c2):
                continue  # identical to g_aw there
            if deep and tp is not None and c2 == 'ret' and c1 == 'ret':
                continue
            hs = [dict(bus='A', pat='P', name='h1', prog=_subst(P_PROGS[p1], cb))]
            if p2:
                hs.append(dict(bus='A', pat='P', name='h2', prog=_subst(P_PROGS[p2], cb)))
            if child:
                hs.append(dict(bus=cb, pat='C', name='hc1', prog=_subst(C_PROGS[c1], cb)))
                if c2:
                    hs.append(dict(bus=cb, pat='C', name='hc2', prog=_subst(C_PROGS[c2], cb)))
                hs.append(dict(bus=cb, pat='G', name='hg', prog=[('pause',)]))
                if 'ga_aw' in (c1, c2):
                    hs.append(dict(bus='A', pat='G', name='hgA', prog=[('pause',)]))
            if fwd:
                # B also handles what is forwarded to it (distinct handler names: the recorder keys on them)
                hs.append(dict(bus='B', pat='P', name='fpB', prog=[('pause',)]))
                if cb == 'A' and child:
                    hs.append(dict(bus='B', pat='C', name='fcB', prog=[('ret', 7)]))
                    hs.append(dict(bus='B', pat='G', name='fgB', prog=[('ret', 8)]))
            names = ['A', 'B'] if has_b else ['A']
            lazy_b = has_b and cb == 'B' and not fwd and child and c1 in ('g_aw', 'ga_aw')
            for b in names:
                # the unrelated later event: its handler on A itself dispatches and awaits a child (an in-handler await AFTER whatever happened to P)
                # (where B is started lazily, B's own later event X2 is dispatched from here instead of from ordinary code)
                hs.append(dict(bus=b, pat='X', name='hx' + b, prog=([('disp', 'B', 'X2', 'ff')] if lazy_b else []) + [('disp', 'A', 'Q', 'await'), ('ret', 0)] if b == 'A' else [('ret', 0)]))
            hs.append(dict(bus='A', pat='Q', name='hq', prog=[('ret', 9)]))
            if fwd:
                hs.append(dict(bus='B', pat='Q', name='fqB', prog=[('ret', 9)]))
            popt = {} if tp is None else {'timeout': None if tp == 'none' else tp}
            # bus B is normally started by ordinary code (X2); where the child's handler dispatches a grandchild and waits for it (lazy_b), B's very
            # first dispatch is the one made inside the root's handler instead (its run-loop task is then created lazily in that handler's context)
            main = [('disp', 'A', 'P', 'late' if main_mode == 'await_root' else 'ff', popt), ('disp', 'A', 'X', 'ff')] + ([('disp', 'B', 'X2', 'ff')] if has_b and not lazy_b else [])
            actors = []
            if main_mode == 'await_root':
                # ordinary code awaits the root; an unrelated actor whose wait the explorer may never complete ("without further stimulus")
                main.append(('await', 'P'))
                actors = [[('pause', 'stall'), ('disp', 'A', 'X9', 'ff')]]
            elif main_mode == 'idle':
                main += [('pause',)] + [('idle', b) for b in names]
            if racing:
                hs.append(dict(bus=cb, pat='Y', name='hy', prog=[('ret', 0)]))
                actors = actors + [[('pause',), ('disp', cb, 'Y', 'ff')]]
            buses = {'A': dict(parallel=par_a)}
            if has_b:
                buses['B'] = dict(parallel=par_b)
            orders = [names] if len(names) == 1 else [names, names[::-1]]
            for order in orders:
                sid = f'{cb}{int(par_a)}{int(par_b)}{int(fwd)}-{p1}+{p2}-{c1}+{c2}-t{tp}-o{"".join(order)}'
                scn = dict(buses=buses, order=order, handlers=hs, main=main, actors=actors, forwards=[('A', 'B')] if fwd else [], settle=3.0)
                yield sid, scn, dict(cb=cb, par_a=par_a, par_b=par_b, fwd=fwd, p1=p1, p2=p2, c1=c1, c2=c2, tp=tp, child=child)


def family(prop, tier, params=None, cfg=None, **kw):
    """specs of family '<prop>.generated' for one property.

    quick    : the sub-grammar, every schedule with <= 1 deviation
    thorough : two exhaustive passes -- (a) the sub-grammar plus an external dispatcher racing with everything, every schedule with
               <= 2 deviations; (b) the full grammar (crossed with the first time-out value only), every schedule with <= 1 deviation (the full grammar at 2 deviations is
               ~2 * 10^6 executions per property and did not finish in 90 minutes on this machine; DESIGN.md section 10)
    """
    kw.pop('racing', None)
    light = kw.pop('thorough_light', False)
    if tier == 'thorough' and light:
        # (properties whose scenarios end in wait_until_idle() on every bus: the two passes below ran for over an hour; one pass, the sub-grammar at 2 deviations)
        passes = [('gen2', 'quick', False, dict(bound=2, cap=1500, window=0.7, max_targets=2))]
    elif tier == 'thorough':
        passes = [('gen2', 'quick', True, dict(bound=2, cap=1500, window=0.7, max_targets=2)),
                  ('genF', 'full', False, dict(bound=1, cap=300, window=0.7, max_targets=2))]
    else:
        passes = [('gen', 'quick', False, dict(bound=1, cap=300, window=0.7, max_targets=2))]
    out = []
    for tag, grammar, racing, base in passes:
        base = dict(base)
        kw2 = dict(kw)
        if tag == 'genF' and len(kw.get('timeouts', ())) > 1:
            kw2['timeouts'] = tuple(kw['timeouts'][:1])  # the full grammar is crossed with the first time-out value only (the others stay in pass (a)): 57 k scenarios instead of 114-170 k
        base.update({k: v for k, v in (cfg or {}).items() if k not in ('bound', 'cap')})
        for sid, scn, meta in scenarios(grammar, racing=racing, **kw2):
            p = dict(params or {})
            p.update(gen=meta)
            out.append(dict(prop=prop, family=f'{prop.lower()}.generated' + ('_full' if tag == 'genF' else ''), id=f'{prop.lower()}.{tag}/{sid}', cfg=base, params=p, scn=scn))
    return out
