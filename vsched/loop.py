"""vsched.loop -- a virtual-time asyncio event loop whose every nondeterministic step is a recorded choice.

Only two things of CPython's BaseEventLoop are overridden: ``time()`` (virtual clock) and the selector's
``select()`` (the single place where a real loop lets the outside world in).  Ready queue, timer heap, Task,
Future, Queue, Semaphore, wait_for, asyncio.timeout, cancellation are all stock code.

See DESIGN.md section 2.
"""
from __future__ import annotations

import heapq
from asyncio import base_events

ENGINE_VERSION = 'vsched-1'


class Horizon(Exception):
    """virtual-time horizon reached with the main coroutine still pending (=> hang verdict)"""


class Deadlock(Exception):
    """nothing enabled: no ready callback, no timer, no environment wait"""


class Livelock(Exception):
    """too many loop iterations at one virtual instant"""


class Divergence(Exception):
    """replaying a recorded prefix met a different choice point: nondeterminism that the engine does not own"""


class _Sel:
    def __init__(self, loop: 'VLoop'):
        self.loop = loop

    def select(self, timeout):
        self.loop._at_select(timeout)
        return []

    def close(self):
        pass


class Chooser:
    """Replays ``prefix`` then answers 0 (the default) to every later choice point.

    points[i] = (kind, n) for every recorded choice point; taken[i] = the answer.
    ``expect`` (optional) = the parent's recorded points for the prefix: any mismatch is a Divergence.
    """

    def __init__(self, prefix=(), expect=None, max_points=600):
        self.max_points = max_points
        self.truncated = 0
        self.prefix = list(prefix)
        self.expect = expect
        self.taken: list[int] = []
        self.points: list[tuple[str, int]] = []
        self.infos: list = []
        self.muted = False  # teardown: answer 0, record nothing

    def choose(self, kind: str, n: int, info=None) -> int:
        if self.muted or n <= 1:
            return 0
        i = len(self.taken)
        if i >= self.max_points:
            self.truncated += 1  # coverage restriction, reported in the evidence: later points are not branched
            return 0
        if i < len(self.prefix):
            c = self.prefix[i]
            if c >= n:
                raise Divergence(f'choice {i}: recorded answer {c} but only {n} options ({kind})')
            if self.expect is not None and i < len(self.expect):
                ek, en = self.expect[i]
                if ek != kind or en != n:
                    raise Divergence(f'choice {i}: recorded ({ek},{en}) now ({kind},{n})')
        else:
            c = 0
        self.taken.append(c)
        self.points.append((kind, n))
        self.infos.append(info)
        return c


class VLoop(base_events.BaseEventLoop):
    def __init__(self, chooser: Chooser, horizon: float = 25.0, window: float = 2.0, max_targets: int = 6,
                 busy: bool = True, max_iters: int = 60000, spin_collapse: int = 2, busy_timers: int = 0):
        super().__init__()
        self._vtime = 0.0
        self._clock_resolution = 1e-9
        self._selector = _Sel(self)
        self.chooser = chooser
        self.horizon = horizon
        self.window = window
        self.max_targets = max_targets
        self.busy_choices = busy
        self.busy_timers = busy_timers  # timer targets offered at busy boundaries ('slow callbacks')
        self._busy_timer_activity = -1
        self.max_iters = max_iters
        self.spin_collapse = spin_collapse
        self.envwaits: list[tuple[str, object, bool]] = []  # (label, future, stallable)
        self.iters = 0
        self.sched_trace: list = []  # what the explorer did (fire / timer / stall), for replay files
        self.macro_target = None
        self.stalled = False
        self.activity = 0  # bumped by the recorder: used by spin collapse and livelock detection
        self._last_sig = None
        self._sig_counts: dict = {}
        self._sig_activity = -1
        self._instant_t = 0
        self._epoch = 0
        self._instant_iters = 0
        self._instant_activity = 0
        self.collapsed = 0
        self.spin_limit = 1500
        self.spin_advances = 0
        self.harness_timers: set = set()
        self._task_seq = 0
        self.set_task_factory(self._make_task)

    def _make_task(self, loop, coro, **kw):
        # number tasks in creation order: asyncio.all_tasks() is a set ordered by object address, which the engine must not depend on
        import asyncio
        t = asyncio.Task(coro, loop=loop, **kw)
        self._task_seq += 1
        t._vseq = self._task_seq
        return t

    # ---- clock -------------------------------------------------------------------------------------
    def time(self):
        # each reading is 1 ns later than the previous one: two call_later(d) issued one after the other get
        # deadlines in creation order, as on a real monotonic clock
        self._vtime += 1e-9
        return self._vtime

    def now(self) -> float:
        return self._vtime

    def _process_events(self, event_list):
        pass

    def _write_to_self(self):
        pass

    # ---- harness-side primitives ----------------------------------------------------------------
    def pause(self, label: str = 'p', stallable: bool = False):
        """environment wait: a future only the explorer completes"""
        fut = self.create_future()
        self.envwaits.append((label, fut, stallable))
        return fut

    def hsleep(self, delay: float):
        """harness timer: fires in time order like any timer but is never offered as a timer target"""
        fut = self.create_future()
        h = self.call_later(delay, lambda: (not fut.done()) and fut.set_result(None))
        self.harness_timers.add(h)
        return fut

    def choose(self, kind: str, n: int, info=None) -> int:
        return self.chooser.choose(kind, n, info)

    # ---- the one hook ----------------------------------------------------------------------------
    def _busy_timer_targets(self):
        out, last = [], None
        for h in sorted(self._scheduled, key=lambda h: h._when):
            if h._cancelled or h in self.harness_timers:
                continue
            if h._when > self._vtime + self.window or h._when > self.horizon:
                break
            if last is not None and h._when - last < 1e-6:
                out[-1] = h
                last = h._when
                continue
            if len(out) >= self.busy_timers:
                break
            out.append(h)
            last = h._when
        return out

    def _live_envwaits(self):
        self.envwaits = [w for w in self.envwaits if not w[1].done()]
        return self.envwaits

    def _ready_signature(self):
        sig = []
        for h in self._ready:
            cb = getattr(h, '_callback', None)
            owner = getattr(cb, '__self__', None)
            coro = getattr(owner, 'get_coro', None)
            if coro is not None:
                try:
                    c = owner.get_coro()
                    fr = getattr(c, 'cr_frame', None)
                    sig.append((getattr(c, '__qualname__', '?'), fr.f_lasti if fr is not None else -1))
                    continue
                except Exception:
                    pass
            sig.append((getattr(cb, '__qualname__', type(cb).__name__), -2))
        return tuple(sig)

    def _at_select(self, timeout):
        self.iters += 1
        if self.iters > self.max_iters:
            raise Livelock(f'more than {self.max_iters} loop iterations')
        # livelock: many iterations at one virtual instant without harness-visible activity
        if self._epoch != self._instant_t or self.activity != self._instant_activity:
            self._instant_t, self._instant_iters, self._instant_activity = self._epoch, 0, self.activity
        else:
            self._instant_iters += 1
            if self._instant_iters > self.spin_limit:
                # a polling loop that never yields to time: on a real loop every iteration takes real time, so the
                # next timer deadline eventually passes while it spins.  Let it pass (or report a livelock if there is none).
                self.spin_advances += 1
                if self.spin_advances > 400:
                    raise Livelock('busy loop survives 400 timer expiries')
                self._instant_iters = 0
                ews = [] if self.stalled else self._live_envwaits()
                if ews:
                    # the loop never goes idle, yet the outside world still answers: oldest environment wait first (the default)
                    self.sched_trace.append(('fire-spin', ews[0][0]))
                    ews[0][1].set_result(None)
                    self._epoch += 1
                    self._instant_t = self._epoch
                    return
                self._cancelled_head()
                if not self._scheduled:
                    raise Livelock(f'more than {self.spin_limit} loop iterations at one virtual instant, no timer pending')
                if self._scheduled[0]._when > self.horizon:
                    raise Horizon(f'busy loop: next timer at {self._scheduled[0]._when:.3f} beyond horizon {self.horizon}')
                if self._scheduled[0]._when > self._vtime:
                    self._vtime = self._scheduled[0]._when
                self._epoch += 1
                self._instant_t = self._epoch
                return
        mt = self.macro_target
        if mt is not None and (mt._cancelled or not mt._scheduled):
            self.macro_target = mt = None
        while True:
            ews = self._live_envwaits()
            if timeout == 0:
                # busy boundary: default 0 = nothing arrives; k>=1 = environment wait k-1 completes now
                if (not ews and not self.busy_timers) or mt is not None or self.stalled or not self.busy_choices:
                    return
                if self.spin_collapse:
                    # busy points with a ready-queue signature already seen spin_collapse times since the last
                    # harness-visible activity offer no alternatives (polling loops: BaseEvent.__await__, queue polls)
                    if self._sig_activity != self.activity:
                        self._sig_activity = self.activity
                        self._sig_counts = {}
                    sig = (self._ready_signature(), tuple(w[0] for w in ews))
                    n = self._sig_counts.get(sig, 0)
                    self._sig_counts[sig] = n + 1
                    if n >= self.spin_collapse:
                        self.collapsed += 1
                        return
                tts = []
                if self.busy_timers and self.activity != self._busy_timer_activity:
                    # offered only at the first busy boundary after a harness-visible step (not at every poll iteration)
                    self._busy_timer_activity = self.activity
                    tts = self._busy_timer_targets()
                if not ews and not tts:
                    return
                c = self.chooser.choose('busy', 1 + len(ews) + len(tts), None)
                if c == 0:
                    return
                if c > len(ews):
                    # "slow callbacks": the burst took long enough for this timer to become due -- it fires in this very iteration,
                    # queued behind the callbacks that are already ready (exactly what _run_once does with due timers)
                    h = tts[c - 1 - len(ews)]
                    self.sched_trace.append(('timer-busy', round(h._when, 4)))
                    if h._when > self._vtime:
                        self._vtime = h._when
                        self._epoch += 1
                    self._last_sig = None
                    return
                label, fut, _ = ews[c - 1]
                self.sched_trace.append(('fire-busy', label))
                fut.set_result(None)
                self._last_sig = None
                continue  # more than one may land at the same boundary
            # ---- idle: ready queue empty -----------------------------------------------------------
            self._last_sig = None
            if mt is not None:
                if timeout is None:
                    self.macro_target = mt = None
                else:
                    self._advance()
                    return
            if self.stalled:
                ews = []
            opts: list = [('env', i) for i in range(len(ews))]
            targets = []
            if timeout is not None:
                last_when = None
                for h in sorted(self._scheduled, key=lambda h: h._when):
                    if h._cancelled or h in self.harness_timers:
                        continue
                    if h._when > self._vtime + self.window or h._when > self.horizon:
                        break
                    if last_when is not None and h._when - last_when < 1e-6:
                        targets[-1] = h  # same cluster: target its last member
                        last_when = h._when
                        continue
                    if len(targets) >= self.max_targets:
                        break
                    targets.append(h)
                    last_when = h._when
                if not ews:
                    # nothing but timers: time simply advances, no choice
                    self._advance()
                    return
                opts += [('timer', h) for h in targets]
                if all(w[2] for w in ews):
                    opts.append(('stall', None))
            if not opts:
                raise Deadlock('no ready callback, no timer, no environment wait')
            c = self.chooser.choose('idle', len(opts), None)
            kind, x = opts[c]
            if kind == 'env':
                label, fut, _ = ews[x]
                self.sched_trace.append(('fire', label))
                fut.set_result(None)
                return
            if kind == 'stall':
                self.sched_trace.append(('stall',))
                self.stalled = True
                self._advance()
                return
            self.sched_trace.append(('timer', round(x._when, 4)))
            self.macro_target = x
            self._advance()
            return

    def _cancelled_head(self):
        while self._scheduled and self._scheduled[0]._cancelled:
            self._timer_cancelled_count -= 1
            h = heapq.heappop(self._scheduled)
            h._scheduled = False

    def _advance(self):
        """move the virtual clock to the next live timer deadline"""
        self._cancelled_head()
        if not self._scheduled:
            raise Deadlock('no timer left to advance to')
        when = self._scheduled[0]._when
        if when > self.horizon:
            raise Horizon(f'next timer at {when:.3f} beyond horizon {self.horizon}')
        if when > self._vtime:
            self._vtime = when
            self._epoch += 1
