"""vsched.oracles -- relations derived from harness-side records only (never from the library's lineage fields)."""
from __future__ import annotations

import bisect


class Trace:
    def __init__(self, res):
        self.res = res
        self.log = res['log']
        self.final = res['final']
        self.verdict = res['verdict']
        self.enters = []      # (seq, t, bus, h, ev, event_bus_seen, who)
        self.exits = []       # (seq, t, bus, h, ev, outcome, who)
        self.dispatches = []  # (seq, t, who, bus, ev, outcome, via)
        self.awaits = []      # dict(who, ev, begin, end, end_kind)
        self.states = {}      # ev -> ([seq...], [state...])
        self.hists = {}       # bus -> [(seq, hist)]
        self.who_info = {}    # who -> (bus, h, ev)
        self.marks = []
        self.idles = []       # dict(who,bus,begin,end,q,pending,started)
        self.stops = []
        open_aw = {}
        open_idle = {}
        open_stop = {}
        for r in self.log:
            k = r[2]
            if k == 'enter':
                self.enters.append((r[0], r[1]) + r[3:])
                self.who_info[r[7]] = (r[3], r[4], r[5])
            elif k == 'exit':
                self.exits.append((r[0], r[1]) + r[3:])
            elif k == 'dispatch':
                self.dispatches.append((r[0], r[1]) + r[3:])
            elif k == 'await-begin':
                a = dict(who=r[3], ev=r[4], begin=r[0], tb=r[1], end=None, kind=None)
                open_aw[(r[3], r[4])] = a
                self.awaits.append(a)
            elif k == 'step-begin':  # a handler pumping another bus with EventBus.step(): suspended on that bus's behalf, like an await (the 'event' is a pseudo-name)
                a = dict(who=r[3], ev='step:' + r[4], begin=r[0], tb=r[1], end=None, kind=None)
                open_aw[(r[3], 'step:' + r[4])] = a
                self.awaits.append(a)
            elif k == 'step-end':
                a = open_aw.pop((r[3], 'step:' + r[4]), None)
                if a is not None:
                    a['end'], a['te'], a['kind'], a['extra'] = r[0], r[1], 'await-end', 'same'
            elif k in ('await-end', 'await-cancelled', 'await-raised'):
                a = open_aw.pop((r[3], r[4]), None)
                if a is not None:
                    a['end'], a['te'], a['kind'], a['extra'] = r[0], r[1], k, r[5:] and r[5]
            elif k == 'state':
                s = self.states.setdefault(r[3], ([], []))
                s[0].append(r[0])
                s[1].append(r[4])
            elif k == 'hist':
                self.hists.setdefault(r[3], []).append((r[0], r[4]))
            elif k == 'mark':
                self.marks.append(r)
            elif k == 'idle-begin':
                d = dict(who=r[3], bus=r[4], begin=r[0], tb=r[1], end=None)
                open_idle[(r[3], r[4])] = d
                self.idles.append(d)
            elif k == 'idle-end':
                d = open_idle.pop((r[3], r[4]), None)
                if d is not None:
                    d.update(end=r[0], te=r[1], q=r[5], pending=r[6], started=r[7])
            elif k == 'stop-begin':
                d = dict(who=r[3], bus=r[4], timeout=r[5], begin=r[0], tb=r[1], end=None)
                open_stop[(r[3], r[4])] = d
                self.stops.append(d)
            elif k == 'stop-end':
                d = open_stop.pop((r[3], r[4]), None)
                if d is not None:
                    d.update(end=r[0], te=r[1])
        self.end_seq = self.log[-1][0] if self.log else 0
        # child_of from harness dispatch records: first programmatic dispatch of x by a handler
        self.first_disp = {}
        self.first_ok = {}
        self.child_of = {}
        self.disp_by = {}
        for d in self.dispatches:
            seq, t, who, bus, ev, outcome, via = d
            if via != 'prog':
                continue
            if ev not in self.first_disp:
                self.first_disp[ev] = d
                self.disp_by[ev] = who
            # the tree is made of ACCEPTED dispatches: an event every dispatch of which was refused belongs to nobody's tree, and one that was
            # refused first and accepted later is the child of whoever got it accepted
            if outcome == 'ok' and ev not in self.first_ok:
                self.first_ok[ev] = d
                if who in self.who_info:
                    self.child_of[ev] = self.who_info[who][2]
        self.children = {}
        for c, p in self.child_of.items():
            self.children.setdefault(p, []).append(c)

    # ---- relations --------------------------------------------------------------------------------
    def desc(self, ev, upto_seq=None):
        """ev and every event transitively dispatched (first dispatch) by handlers of it (recorded before upto_seq)"""
        out, todo = set(), [ev]
        while todo:
            x = todo.pop()
            if x in out:
                continue
            out.add(x)
            for c in self.children.get(x, ()):
                if upto_seq is None or self.first_ok[c][0] <= upto_seq:
                    todo.append(c)
        return out

    def state_at(self, ev, seq):
        s = self.states.get(ev)
        if not s:
            return None
        i = bisect.bisect_right(s[0], seq) - 1
        return s[1][i] if i >= 0 else None

    @staticmethod
    def st_complete(st):
        """completed status, signal set, every result terminal"""
        return st is not None and st[0] == 'completed' and st[1] is True and all(r[2] in ('completed', 'error') for r in st[2])

    @staticmethod
    def st_done(st):
        """processed: status completed and every result terminal (the completion signal may lag by a callback burst)"""
        return st is not None and st[0] == 'completed' and all(r[2] in ('completed', 'error') for r in st[2])

    def intervals(self):
        """handler activity intervals: (enter_seq, exit_seq|None, bus, h, ev, who)"""
        ex = {}
        for e in self.exits:
            ex.setdefault(e[6], []).append(e[0])
        out = []
        used = {}
        for en in self.enters:
            who = en[6]
            k = used.get(who, 0)
            lst = ex.get(who, [])
            end = lst[k] if k < len(lst) else None
            used[who] = k + 1
            out.append((en[0], end, en[2], en[3], en[4], who))
        return out

    def awaiting(self, who, seq):
        for a in self.awaits:
            if a['who'] == who and a['begin'] <= seq and (a['end'] is None or seq <= a['end']):
                return a
        return None

    def unprocessed(self, scn, ev, seq):
        """(bus, handler) pairs: ev was accepted on bus (dispatch or forwarding) by seq but that harness handler has not exited by seq"""
        out = []
        for d in self.dispatches:
            if d[4] != ev or d[5] != 'ok' or d[0] > seq:
                continue
            bus = d[3]
            st = self.state_at(ev, seq)
            settled = {(r[0], r[1]) for r in (st[2] if st else ()) if r[2] in ('completed', 'error')}
            for h in matching_handlers(scn, bus, ev):
                # a handler the library refused or cancelled without running it (recursion guard, parent time-out) is settled by its terminal result
                if (bus, h) in settled and not any(x[2] == bus and x[3] == h and x[4] == ev for x in self.enters):
                    continue
                if not any(x[2] == bus and x[3] == h and x[4] == ev and x[0] <= seq for x in self.exits) and (bus, h) not in out:
                    out.append((bus, h))
        return out

    def accepted(self, bus=None):
        """(seq, bus, ev, who, via) for dispatch calls that returned"""
        return [(d[0], d[3], d[4], d[2], d[6]) for d in self.dispatches if d[5] == 'ok' and (bus is None or d[3] == bus)]

    def first_entry(self, bus, ev):
        for en in self.enters:
            if en[2] == bus and en[4] == ev:
                return en[0]
        return None


def matching_handlers(scn, bus, evname):
    """harness handlers registered on ``bus`` whose pattern matches the event (by its leading class letter)"""
    cls = evname[0]
    out = []
    for h in scn['handlers']:
        if h['bus'] != bus:
            continue
        pat = h['pat']
        if pat == '*' or pat == cls or pat == 's:' + cls:
            out.append(h['name'])
    return out


def V(clause, detail='', **tags):
    return dict(clause=clause, detail=detail, tags=tags)
