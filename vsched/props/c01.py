"""C01  Exactly-once handler delivery per (event, bus, handler).  (DESIGN.md 4, C01)"""
from __future__ import annotations

import itertools

from ..oracles import Trace, V
from ..world import make  # noqa: F401

LEVEL = 'model_checking'
RULE = ('programs from a grammar: 1-2 buses (optionally A forwards to B), 1-3 handlers per event registered by class / type-name string / wildcard '
        '(same function under two patterns, two functions sharing one __name__, sync/async/method/static, raising before/after a pause), nested children '
        '(fire-and-forget, awaited, late-awaited; own or other bus; depth 2-3), an external actor dispatching concurrently, and re-dispatch of the same object '
        'to the same bus while pending / in flight / after completion; all schedules with <= L deviations, both bus orders. '
        'non-trivial = a nested dispatch, re-dispatch or suspended handler occurred; distinct = distinct recorder traces')
ASSUMPTIONS = ['no stop(), no handler timeouts, fewer than 50 events (no eviction), self-recursion only in family c01.recursion_guard, where a refusal by the recursion guard that is recorded as the RuntimeError result of that handler is not counted as a skipped delivery']

P_SHAPES = {
    'ret': [('ret', 1)],
    'pause': [('pause',), ('ret', 2)],
    'raise': [('raise', 'ValueError')],
    'pause_raise': [('pause',), ('raise', 'Custom')],
    'c_ff': [('disp', 'A', 'C', 'ff')],
    'c_aw': [('disp', 'A', 'C', 'await')],
    'c_aw_B': [('disp', 'B', 'C', 'await')],
    'c_ff_B': [('disp', 'B', 'C', 'ff')],
    'c_late': [('disp', 'A', 'C', 'late'), ('pause',), ('await', 'C')],
    'c_late_B': [('disp', 'B', 'C', 'late'), ('pause',), ('await', 'C')],
    'c_ff_pause': [('disp', 'A', 'C', 'ff'), ('pause',)],
    'redisp_self': [('redisp', 'A', 'self'), ('pause',)],
}
C_SHAPES = {
    'ret': [('ret', 3)],
    'pause': [('pause',)],
    'g_aw': [('disp', 'A', 'G', 'await')],
    'g_ff': [('disp', 'A', 'G', 'ff'), ('pause',)],
    'raise': [('raise', 'RuntimeError')],
}


def scn(buses, handlers, main, actors=(), forwards=(), order=None, **kw):
    return dict(buses=buses, handlers=handlers, main=main, actors=list(actors), forwards=list(forwards), order=order, settle=3.0, **kw)


def families(tier):
    deep = tier == 'thorough'
    out = []
    cfg = dict(bound=4 if deep else 2, cap=60000 if deep else 1500, window=0.25, max_targets=2)

    def add(fam, sid, s, **params):
        nb = len(s['buses'])
        orders = [['A']] if nb == 1 else [['A', 'B'], ['B', 'A']]
        for o in orders:
            s2 = dict(s, order=o)
            out.append(dict(prop='C01', family=fam, id=f'{fam}/{sid}-o{"".join(o)}', scn=s2, params=params, cfg=cfg))

    # --- family 1: handler-list shapes x child shapes ------------------------------------------------
    pshapes = list(P_SHAPES)
    for p1, p2 in itertools.product(pshapes, ['ret', 'pause', 'raise', 'c_ff', 'c_aw', None]):
        for cs in (['ret', 'pause', 'g_aw'] if not deep else list(C_SHAPES)):
            uses_c = any(x and x.startswith('c_') for x in (p1, p2))
            if not uses_c and cs != 'ret':
                continue
            uses_b = any(x and x.endswith('_B') for x in (p1, p2))
            buses = {'A': {}, 'B': {}} if uses_b else {'A': {}}
            hs = [dict(bus='A', pat='P', name='hp1', prog=P_SHAPES[p1])]
            if p2:
                hs.append(dict(bus='A', pat='s:P', name='hp2', prog=P_SHAPES[p2]))
            if uses_c:
                cb = 'B' if uses_b else 'A'
                hs.append(dict(bus='A', pat='C', name='hcA', prog=C_SHAPES[cs]))
                if uses_b:
                    hs.append(dict(bus='B', pat='C', name='hcB', prog=[('pause',)] if cs == 'pause' else [('ret', 4)]))
                if cs.startswith('g_'):
                    hs.append(dict(bus='A', pat='G', name='hg', prog=[('ret', 5)]))
            hs.append(dict(bus='A', pat='*', name='hw', prog=[('ret', 9)], kind='sync'))
            main = [('disp', 'A', 'P', 'ff'), ('disp', 'A', 'X', 'ff')]
            hs.append(dict(bus='A', pat='X', name='hx', prog=[('ret', 0)]))
            add('c01.shapes', f'{p1}+{p2}-{cs}', scn(buses, hs, main), p1=p1, p2=p2, cs=cs)

    # --- family 2: registration kinds (same fn under two patterns, duplicate names, methods, statics) --------
    for kind, pats, dup in itertools.product(['async', 'sync', 'amethod', 'method', 'astatic', 'abusmethod', 'busmethod'], [['P'], ['s:P'], ['*'], ['P', '*'], ['P', 's:P']], [False, True]):
        hs = [dict(bus='A', pat=pats, name='h1', prog=[('ret', 1)] if kind in ('sync', 'method', 'busmethod') else [('pause',), ('ret', 1)], kind=kind)]
        if dup:
            hs.append(dict(bus='A', pat='P', name='h2', fname='h1', prog=[('ret', 2)], kind='async'))
        hs.append(dict(bus='A', pat='X', name='hx', prog=[('disp', 'A', 'P', 'ff')]))
        main = [('disp', 'A', 'P', 'ff'), ('disp', 'A', 'X', 'ff'), ('disp', 'A', 'Y', 'ff')]
        add('c01.registration', f'{kind}-{"+".join(pats).replace("*", "star").replace(":", "")}-d{int(dup)}', scn({'A': {}}, hs, main), kind=kind)

    # --- family 2b: a handler (any kind) ends with an exception - including CancelledError nobody asked for - and later handlers / events still get theirs
    for kind, exc in itertools.product(['async', 'sync', 'amethod', 'method', 'astatic'], ['ValueError', 'CancelledError', 'TimeoutError']):
        hs = [dict(bus='A', pat='P', name='h1', prog=[('raise', exc)], kind=kind), dict(bus='A', pat='s:P', name='h2', prog=[('ret', 2)], kind='sync'),
              dict(bus='A', pat='*', name='h3', prog=[('pause',), ('ret', 3)]), dict(bus='A', pat='P', name='h4', prog=[('disp', 'A', 'C', 'await')]), dict(bus='A', pat='C', name='hc', prog=[('ret', 1)])]
        main = [('disp', 'A', 'P', 'ff'), ('disp', 'A', 'X', 'ff'), ('pause',), ('disp', 'A', 'P2', 'ff')]
        add('c01.registration', f'raises-{kind}-{exc}', scn({'A': {}}, hs, main), kind=kind)
    # --- family 2d: an event class that pins its own event_type (class 'Ov', events of type 'O'): handlers registered by that CLASS, by the type name and by '*'
    for kind, pats in itertools.product(['async', 'sync', 'amethod'], [['O'], ['s:O'], ['O', 's:O'], ['O', '*']]):
        hs = [dict(bus='A', pat=pats, name='h1', prog=[('ret', 1)] if kind == 'sync' else [('pause',), ('ret', 1)], kind=kind), dict(bus='A', pat='O', name='h2', prog=[('ret', 2)]),
              dict(bus='A', pat='*', name='hw', prog=[('ret', 9)], kind='sync'), dict(bus='A', pat='X', name='hx', prog=[('disp', 'A', 'O', 'ff')])]
        main = [('disp', 'A', 'O', 'ff'), ('disp', 'A', 'X', 'ff')]
        add('c01.registration', f'pinned-type-{kind}-{"+".join(pats).replace("*", "star").replace(":", "")}', scn({'A': {}}, hs, main), kind=kind)
    # --- family 2e: events of a class that is falsy (an empty batch, __len__ == 0): dispatched from ordinary code, from a handler (fire-and-forget / awaited), forwarded
    for how, kind in itertools.product(['main', 'ff', 'await', 'fwd'], ['async', 'sync']):
        buses = {'A': {}, 'B': {}} if how == 'fwd' else {'A': {}}
        hs = [dict(bus='A', pat='E', name='h1', prog=[('ret', 1)] if kind == 'sync' else [('pause',), ('ret', 1)], kind=kind), dict(bus='A', pat='s:E', name='h2', prog=[('ret', 2)]),
              dict(bus='A', pat='*', name='hw', prog=[('ret', 9)], kind='sync')]
        if how in ('ff', 'await'):
            hs.append(dict(bus='A', pat='P', name='hp', prog=[('disp', 'A', 'E', how), ('pause',)]))
        if how == 'fwd':
            hs.append(dict(bus='B', pat='E', name='hB', prog=[('ret', 3)]))
        main = [('disp', 'A', 'E', 'ff')] if how in ('main', 'fwd') else [('disp', 'A', 'P', 'ff')]
        add('c01.registration', f'falsy-event-{how}-{kind}', scn(buses, hs, main + [('disp', 'A', 'X', 'ff')], forwards=[('A', 'B')] if how == 'fwd' else []), kind=kind)
    # --- family 2c: handlers that are bound methods of an EventBus instance (a component class deriving from EventBus that subscribes its own methods),
    # registered on that bus itself or on another bus, reached directly and through forwarding
    for kind, owner, reg_on, entry in itertools.product(['abusmethod', 'busmethod'], 'AB', 'AB', 'AB'):
        hs = [dict(bus=reg_on, pat='P', name='hm', prog=[('ret', 1)] if kind == 'busmethod' else [('pause',), ('ret', 1)], kind=kind, owner=owner),
              dict(bus='A', pat='P', name='hpA', prog=[('ret', 'a')]), dict(bus='B', pat='P', name='hpB', prog=[('ret', 'b')])]
        main = [('disp', entry, 'P', 'ff'), ('disp', 'A', 'X', 'ff')]
        add('c01.registration', f'{kind}-own{owner}-on{reg_on}-entry{entry}', scn({'A': {}, 'B': {}}, hs, main, forwards=[('A', 'B'), ('B', 'A')]), kind=kind)
    # --- family 3: re-dispatch of the same object to the same bus: pending / in flight / completed -----------
    for when, pshape, nb, fwd in itertools.product(['pending', 'inflight', 'completed', 'actor'], ['pause', 'c_aw', 'c_ff_pause', 'redisp_self'], (1, 2), (False, True)):
        if nb == 1 and fwd:
            continue
        buses = {'A': {}} if nb == 1 else {'A': {}, 'B': {}}
        hs = [dict(bus='A', pat='P', name='hp', prog=P_SHAPES[pshape]), dict(bus='A', pat='*', name='hw', prog=[('ret', 9)], kind='sync'),
              dict(bus='A', pat='C', name='hc', prog=[('pause',)])]
        if nb == 2:
            hs.append(dict(bus='B', pat='P', name='hpB', prog=[('pause',)]))
        main = [('disp', 'A', 'P', 'ff')]
        actors = []
        if when == 'pending':
            main += [('redisp', 'A', 'P')]
        elif when == 'inflight':
            main += [('pause',), ('redisp', 'A', 'P')]
        elif when == 'completed':
            main += [('await', 'P'), ('redisp', 'A', 'P'), ('pause',), ('redisp', 'A', 'P')]
        else:
            actors = [[('pause',), ('redisp', 'A', 'P'), ('disp', 'A', 'X', 'ff')]]
        if nb == 2 and not fwd:
            main += [('redisp', 'B', 'P')]
        add('c01.redispatch', f'{when}-{pshape}-nb{nb}-f{int(fwd)}', scn(buses, hs, main, actors, forwards=[('A', 'B')] if fwd else []), when=when)

    # --- family 4: concurrent external dispatcher + nesting depth 3 across two buses -------------------------
    for a_shape, c_bus, g_bus, aw in itertools.product(['x', 'xx', 'x_pause_x'], 'AB', 'AB', ['await', 'ff', 'late']):
        buses = {'A': {}, 'B': {}}
        hp = [('disp', c_bus, 'C', aw)] + ([('pause',), ('await', 'C')] if aw == 'late' else [])
        hc = [('disp', g_bus, 'G', 'await' if aw != 'ff' else 'ff')]
        hs = [dict(bus='A', pat='P', name='hp', prog=hp), dict(bus=c_bus, pat='C', name='hc', prog=hc), dict(bus=g_bus, pat='G', name='hg', prog=[('pause',)]),
              dict(bus='A', pat='X', name='hxA', prog=[('ret', 1)]), dict(bus='B', pat='X', name='hxB', prog=[('pause',)]),
              dict(bus='B', pat='*', name='hwB', prog=[('ret', 1)], kind='sync')]
        actor = {'x': [('disp', 'B', 'X', 'ff')], 'xx': [('disp', 'A', 'X', 'ff'), ('disp', 'B', 'X', 'ff')],
                 'x_pause_x': [('disp', 'B', 'X', 'ff'), ('pause',), ('disp', 'A', 'X', 'ff')]}[a_shape]
        main = [('disp', 'A', 'P', 'ff'), ('pause',), ('disp', 'A', 'P', 'ff')]
        add('c01.nested_concurrent', f'{a_shape}-c{c_bus}-g{g_bus}-{aw}', scn(buses, hs, main, [actor]), aw=aw)
    # --- family 6: parallel_handlers bus: one handler awaits a child (two handlers, serial other bus / same bus) while its sibling returns, raises or dispatches
    for sib, cbus, csh in itertools.product(['raise', 'pause_raise', 'pause_raise_timeout', 'ret', 'pause', 'c2_ff', 'c2_aw'], 'AB', ['pause_ret', 'ret_pause']):
        c1, c2 = ([('pause',), ('ret', 1)], [('ret', 2)]) if csh == 'pause_ret' else ([('ret', 1)], [('pause',), ('ret', 2)])
        hB = {'raise': [('raise', 'ValueError')], 'pause_raise': [('pause',), ('raise', 'Custom')], 'pause_raise_timeout': [('pause',), ('raise', 'TimeoutError')], 'ret': [('ret', 0)], 'pause': [('pause',)],
              'c2_ff': [('pause',), ('disp', cbus, 'G', 'ff')], 'c2_aw': [('pause',), ('disp', cbus, 'G', 'await')]}[sib]
        hs = [dict(bus='A', pat='P', name='hA', prog=[('disp', cbus, 'C', 'await'), ('ret', 'a')]), dict(bus='A', pat='P', name='hB', prog=hB),
              dict(bus=cbus, pat='C', name='hc1', prog=c1), dict(bus=cbus, pat='C', name='hc2', prog=c2), dict(bus=cbus, pat='G', name='hg', prog=[('pause',)]),
              dict(bus='A', pat='X', name='hx', prog=[('ret', 0)])]
        s_ = scn({'A': dict(parallel=True), 'B': {}}, hs, [('disp', 'A', 'P', 'ff'), ('disp', 'A', 'X', 'ff')])
        add('c01.parallel_siblings', f'{sib}-c{cbus}-{csh}', s_, sib=sib)
    # --- family 5: a dispatch that was rejected (backlog limit / full queue) is offered again later and then accepted ---------------
    for K, hist, src in itertools.product((51, 60), (50, 5), ('main', 'handler')):
        hs = [dict(bus='A', pat='X', name='hx', prog=[('ret', 1)], kind='sync'), dict(bus='A', pat='*', name='hw', prog=[('ret', 9)], kind='sync')]
        if src == 'main':
            main = [('burst', 'A', 'X', K), ('idle', 'A'), ('reoffer', 'A'), ('idle', 'A')]
        else:
            hs.append(dict(bus='A', pat='P', name='hp', prog=[('burst', 'A', 'X', K), ('pause',)]))
            main = [('disp', 'A', 'P', 'ff'), ('pause',), ('idle', 'A'), ('reoffer', 'A'), ('idle', 'A')]
        out.append(dict(prop='C01', family='c01.retry_after_reject', id=f'c01.retry_after_reject/K{K}-h{hist}-{src}', params=dict(K=K), cfg=dict(bound=1, cap=60, window=0.25, max_targets=1, busy=False),
                        scn=dict(buses={'A': dict(hist=hist)}, handlers=hs, main=main, actors=[], forwards=[], order=['A'], settle=3.0, no_watch=True)))
    # --- family 7: one handler re-emits its own event type from inside itself, 4-5 levels deep; from the 4th level on the library's recursion guard refuses THAT
    # handler (by design, recorded as its error result).  The handlers registered before and after it are innocent and still get every event
    for mode, maxd, par in itertools.product(('ff', 'await'), (3, 4), (False, True)):
        hs = [dict(bus='A', pat='R', name='hpre', prog=[('ret', 8)], kind='sync'), dict(bus='A', pat='R', name='hr', prog=[('recurse', 'A', mode, maxd), ('ret', 1)]),
              dict(bus='A', pat='R', name='hfin', prog=[('pause',), ('ret', 9)]), dict(bus='A', pat='*', name='hw', prog=[('ret', 7)], kind='sync')]
        add('c01.recursion_guard', f'{mode}-d{maxd}-p{int(par)}', scn({'A': dict(parallel=par)}, hs, [('disp', 'A', 'R', 'ff'), ('disp', 'A', 'X', 'ff')]), guard=True)
    # the grammar-generated corpus shared by the bus properties (vsched/gen.py), judged by this property's oracle
    from .. import gen
    out += gen.family('C01', tier, timeouts=(None,), allow_tmo_await=False)
    return out


def _fname(h):
    return h.get('fname', h['name'])


def _matches(h, cls):
    pats = h['pat'] if isinstance(h['pat'], list) else [h['pat']]
    return any(p == '*' or p == cls or p == 's:' + cls for p in pats)


def trigger(spec, res):
    for r in res['log']:
        if r[2] == 'dispatch' and r[3] != 'main' and not r[3].startswith('actor') and r[7] == 'prog':
            return True
        if r[2] == 'resumed' and r[3] not in ('main',) and not r[3].startswith('actor'):
            return True
    return False


def oracle(spec, res):
    tr = Trace(res)
    scn_ = spec['scn']
    out = []
    v = res['verdict'][0]
    if v != 'done':
        out.append(V('no_quiescence', f'verdict {res["verdict"]} phase {res["phase"]}'))
        return out
    for d in tr.dispatches:
        if d[5] == 'other-object':
            out.append(V('dispatch_returned_other_object', str(d)))
    if res['extra'].get('live_envwaits'):
        out.append(V('harness_not_quiescent', str(res['extra'])))
        return out
    accepted = {}
    for seq, bus, ev, who, via in tr.accepted():
        accepted.setdefault((bus, ev), seq)
    enters = {}
    for en in tr.enters:
        enters[(en[2], en[3], en[4])] = enters.get((en[2], en[3], en[4]), 0) + 1
    expected = set()
    refused = set()
    for (bus, ev) in accepted:
        for h in scn_['handlers']:
            if h['bus'] == bus and _matches(h, ev[0]):
                expected.add((bus, h['name'], ev))
                n = enters.get((bus, h['name'], ev), 0)
                if n == 0 and spec['params'].get('guard') and any(r['bus'] == bus and r['h'] == _fname(h) and r['status'] == 'error' and r['errtype'] == 'RuntimeError'
                                                                   for r in res['final']['events'].get(ev, {}).get('results', [])):
                    refused.add((bus, h['name'], ev))  # the recursion guard refused this handler and said so in its result: not a silent skip
                elif n == 0:
                    out.append(V('handler_skipped', f'{bus}.{h["name"]} never ran for {ev} (accepted at seq {accepted[(bus, ev)]})', redispatched=_redisp(tr, bus, ev)))
                elif n > 1:
                    out.append(V('handler_ran_twice', f'{bus}.{h["name"]} ran {n} times for {ev}', redispatched=_redisp(tr, bus, ev)))
    for key, n in enters.items():
        if key not in expected:
            out.append(V('handler_ran_for_unmatched_event', f'{key} x{n}'))
    # results: exactly one terminal result per expected (bus, function)
    for ev, fe in res['final']['events'].items():
        got = {}
        for r in fe['results']:
            if r['h'] == 'dispatch':
                continue
            got[(r['bus'], r['h'])] = got.get((r['bus'], r['h']), 0) + 1
            if r['status'] not in ('completed', 'error'):
                out.append(V('result_not_terminal_at_quiescence', f'{ev}: {r}'))
        want = {}
        for (bus, hn, e2) in expected:
            if e2 == ev:
                h = next(h for h in scn_['handlers'] if h['bus'] == bus and h['name'] == hn)
                want[(bus, _fname(h))] = want.get((bus, _fname(h)), 0) + 1
        if got != want:
            out.append(V('results_do_not_match_deliveries', f'{ev}: results {got} expected {want}'))
    return out


def _redisp(tr, bus, ev):
    return sum(1 for d in tr.dispatches if d[3] == bus and d[4] == ev and d[5] == 'ok') > 1
