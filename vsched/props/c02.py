"""C02  Per-bus FIFO processing order.  (DESIGN.md 4, C02)"""
from __future__ import annotations

import itertools

from ..oracles import Trace, V
from ..world import make  # noqa: F401

LEVEL = 'model_checking'
RULE = ('1-3 buses, forwarding in {none, chain, diamond}, 3-5 top-level events from main plus one external actor, handlers that return / pause / await a child on '
        'their own or another bus; every bus has a wildcard probe so each (bus, event) has a first entry; all schedules <= L deviations; all bus orders. '
        'non-trivial = at least two events were enqueued on one bus while a handler was suspended; distinct = distinct recorder traces')
ASSUMPTIONS = ['re-dispatch of one object to one bus is excluded (enqueue order would be ambiguous)']


def families(tier):
    deep = tier == 'thorough'
    out = []
    cfg = dict(bound=3 if deep else 2, cap=60000 if deep else 2500, window=0.25, max_targets=2)
    topo = {
        'one': (['A'], []),
        'two': (['A', 'B'], []),
        'chain2': (['A', 'B'], [('A', 'B')]),
        'chain3': (['A', 'B', 'C'], [('A', 'B'), ('B', 'C')]),
        'diamond': (['A', 'B', 'C'], [('A', 'B'), ('A', 'C'), ('B', 'C')]),
    }
    for tname, (bn, fw) in topo.items():
        for pshape, yshape, actor in itertools.product(['pause', 'c_aw_same', 'c_aw_other', 'c_late_other', 'c_ff_other', 'sib_ff_same_aw', 'sib_ff_other_aw'], ['ret', 'pause'], ['none', 'y2_A', 'y2_last', 'pause_y2_last']):
            if len(bn) == 1 and 'other' in pshape:
                continue
            if pshape.startswith('sib_') and tname in ('chain3', 'diamond') and not deep:
                continue
            last = bn[-1]
            other = bn[1] if len(bn) > 1 else 'A'
            hp = {'pause': [('pause',)], 'c_aw_same': [('disp', 'A', 'C', 'await')], 'c_aw_other': [('disp', other, 'C', 'await')],
                  'c_late_other': [('disp', other, 'C', 'late'), ('pause',), ('await', 'C')], 'c_ff_other': [('disp', other, 'C', 'ff'), ('pause',)],
                  # two children, only the second is awaited: the un-awaited sibling must keep its FIFO turn behind Y1 / Y3
                  'sib_ff_same_aw': [('disp', 'A', 'C', 'ff'), ('disp', 'A', 'G', 'await')], 'sib_ff_other_aw': [('disp', other, 'C', 'ff'), ('disp', 'A', 'G', 'await')]}[pshape]
            hs = [dict(bus='A', pat='P', name='hp', prog=hp)]
            for b in bn:
                hs.append(dict(bus=b, pat='*', name='probe' + b, prog=[('ret', 0)], kind='sync'))
                hs.append(dict(bus=b, pat='Y', name='hy' + b, prog=[('pause',)] if yshape == 'pause' else [('ret', 1)]))
            cbus = 'A' if pshape in ('c_aw_same', 'sib_ff_same_aw') else other
            if pshape != 'pause':
                hs.append(dict(bus=cbus, pat='C', name='hc', prog=[('pause',)]))
            if pshape.startswith('sib_'):
                hs.append(dict(bus='A', pat='G', name='hg', prog=[('pause',)]))
            main = [('disp', 'A', 'P', 'ff'), ('disp', 'A', 'Y1', 'ff'), ('disp', last, 'Y3', 'ff')]
            if deep:
                main.append(('disp', 'A', 'Y4', 'ff'))
            actors = {'none': [], 'y2_A': [[('disp', 'A', 'Y2', 'ff')]], 'y2_last': [[('disp', last, 'Y2', 'ff')]],
                      'pause_y2_last': [[('pause',), ('disp', last, 'Y2', 'ff'), ('disp', 'A', 'Y5', 'ff')]]}[actor]
            orders = [bn] if len(bn) == 1 else ([bn, bn[::-1]] if not deep else [list(p) for p in itertools.permutations(bn)])
            for o in orders:
                sid = f'{tname}-{pshape}-{yshape}-{actor}-o{"".join(o)}'
                out.append(dict(prop='C02', family='c02.fifo.' + ('fwd' if fw else 'plain'), id='c02/' + sid, cfg=cfg, params=dict(topo=tname, pshape=pshape),
                                scn=dict(buses={b: {} for b in bn}, order=list(o), handlers=hs, main=main, actors=actors, forwards=fw, settle=3.0)))
    # a serial bus B fed by sibling handlers of a parallel_handlers bus A, each awaiting a child on B (one of them gives up its await): B must stay serial and FIFO
    for giveup, nsib, yq in itertools.product((False, True), (2, 3), (0, 1)):
        hs = [dict(bus='A', pat='P', name='h1', prog=[('disp', 'B', 'C1', 'await'), ('pause',)]),
              dict(bus='A', pat='P', name='h2', prog=[('pause',)] + ([('await_tmo', 'B', 'C2', 0.5), ('disp', 'B', 'C4', 'await')] if giveup else [('disp', 'B', 'C2', 'await')]))]
        if nsib == 3:
            hs.append(dict(bus='A', pat='P', name='h3', prog=[('pause',), ('pause',), ('disp', 'B', 'C3', 'await')]))
        hs += [dict(bus='B', pat='C', name='hcB', prog=[('pause',), ('pause',)]), dict(bus='B', pat='*', name='probeB', prog=[('ret', 0)], kind='sync'),
               dict(bus='B', pat='Y', name='hyB', prog=[('pause',)]), dict(bus='A', pat='*', name='probeA', prog=[('ret', 0)], kind='sync')]
        main = [('disp', 'B', 'Y0', 'await'), ('disp', 'A', 'P', 'ff')] + [('disp', 'B', 'Y1', 'ff')] * yq
        for o in (['A', 'B'], ['B', 'A']):
            out.append(dict(prop='C02', family='c02.fifo.parallel_parent', id=f'c02/parpar-g{int(giveup)}-n{nsib}-y{yq}-o{"".join(o)}', cfg=dict(cfg, window=0.7), params=dict(topo='parpar', pshape='sib'),
                            scn=dict(buses={'A': dict(parallel=True), 'B': {}}, order=o, handlers=hs, main=main, actors=[], forwards=[], settle=3.0)))
    # a handler on serial A (0.5 s time-out) awaits a child on the parallel_handlers bus B whose two handlers are both running when the time-out fires; the
    # second of them would go on to dispatch to serial bus C and await there - while C is in the middle of another event.  Whatever is left of an
    # interrupted event must not start events on C out of turn
    for k2shape, y_first in itertools.product(('pause_aw', 'pause_pause_aw'), (True, False)):
        k2 = [('pause',)] * (2 if k2shape == 'pause_pause_aw' else 1) + [('disp', 'C', 'G', 'await'), ('ret', 2)]
        hs = [dict(bus='A', pat='P', name='hp', prog=[('disp', 'B', 'C', 'await')]), dict(bus='B', pat='C', name='k1', prog=[('pause',), ('ret', 1)]), dict(bus='B', pat='C', name='k2', prog=k2),
              dict(bus='C', pat='Y', name='hyC', prog=[('pause',), ('pause',)]), dict(bus='C', pat='G', name='hgC', prog=[('ret', 0)]), dict(bus='A', pat='X', name='hxA', prog=[('ret', 0)]),
              dict(bus='A', pat='*', name='probeA', prog=[('ret', 0)], kind='sync'), dict(bus='B', pat='*', name='probeB', prog=[('ret', 0)], kind='sync'), dict(bus='C', pat='*', name='probeC', prog=[('ret', 0)], kind='sync')]
        main = ([('disp', 'C', 'Y', 'ff')] if y_first else []) + [('disp', 'A', 'P', 'ff', {'timeout': 0.5}), ('disp', 'A', 'X', 'ff')] + ([] if y_first else [('disp', 'C', 'Y', 'ff')]) + [('sleep', 0.6), ('disp', 'C', 'Y2', 'ff')]
        for o in (['A', 'B', 'C'], ['C', 'B', 'A']):
            out.append(dict(prop='C02', family='c02.fifo.leftover_of_interrupted_event', id=f'c02/leftover-{k2shape}-y{int(y_first)}-o{"".join(o)}', cfg=dict(cfg, window=1.2, max_targets=3), params=dict(topo='leftover', pshape='tmo'),
                            scn=dict(buses={'A': {}, 'B': dict(parallel=True), 'C': {}}, order=o, handlers=hs, main=main, actors=[], forwards=[], settle=3.0)))
    # a handler is cut off by its time-out (0.3 s) and needs 0.5 s to clean up after the cancellation (an async finally); the next event of the same serial bus is
    # already queued: it starts when that handler has really ended, not 0.1 s after it was told to
    for nb, second in itertools.product((1, 2), (False, True)):
        names = ['A', 'B'][:nb]
        hs = [dict(bus='A', pat='P', name='hp', prog=[('guarded_pause', 0.5), ('ret', 1)]), dict(bus='A', pat='X', name='hxA', prog=[('pause',), ('ret', 0)]),
              dict(bus='A', pat='*', name='probeA', prog=[('ret', 0)], kind='sync')]
        if second:
            hs.append(dict(bus='A', pat='P', name='hp2', prog=[('ret', 2)]))
        if nb == 2:
            hs += [dict(bus='B', pat='X', name='hxB', prog=[('pause',), ('ret', 0)]), dict(bus='B', pat='*', name='probeB', prog=[('ret', 0)], kind='sync')]
        main = [('disp', 'A', 'P', 'ff', {'timeout': 0.3}), ('disp', 'A', 'X', 'ff')] + ([('disp', 'B', 'X2', 'ff')] if nb == 2 else []) + [('sleep', 1.2), ('disp', 'A', 'X3', 'ff')]
        for o in ([names] if nb == 1 else [names, names[::-1]]):
            out.append(dict(prop='C02', family='c02.fifo.slow_cleanup_after_timeout', id=f'c02/slowclean-n{nb}-s{int(second)}-o{"".join(o)}', cfg=dict(cfg, window=1.2, max_targets=3), params=dict(topo='slowclean', pshape='tmo'),
                            scn=dict(buses={b: {} for b in names}, order=o, handlers=hs, main=main, actors=[], forwards=[], settle=3.0)))
    # the grammar-generated corpus shared by the bus properties (vsched/gen.py), judged by this property's oracle
    from .. import gen
    out += gen.family('C02', tier, params=dict(topo='gen', pshape='gen'), timeouts=(None,))
    return out


def trigger(spec, res):
    tr = Trace(res)
    per = {}
    for seq, bus, ev, who, via in tr.accepted():
        per.setdefault(bus, set()).add(ev)
    return any(len(v) >= 2 for v in per.values()) and any(r[2] == 'resumed' for r in res['log'])


def oracle(spec, res):
    tr = Trace(res)
    out = []
    if res['verdict'][0] != 'done':
        return out
    # (a) order of first entries vs order of enqueueing, per bus
    enq = {}
    for seq, bus, ev, who, via in tr.accepted():
        enq.setdefault(bus, {}).setdefault(ev, seq)
    for bus, evs in enq.items():
        order = sorted(evs, key=lambda e: evs[e])
        fe = {e: tr.first_entry(bus, e) for e in order}
        for i, x in enumerate(order):
            for y in order[i + 1:]:
                if fe[x] is None or fe[y] is None or fe[y] > fe[x]:
                    continue
                # y overtook x: allowed only if some handler was awaiting an event a with y in {a} U desc(a) when y started
                ok = False
                for a in tr.awaits:
                    if a['who'] in tr.who_info and a['begin'] <= fe[y] and (a['end'] is None or fe[y] <= a['end']) and y in tr.desc(a['ev']):
                        ok = True
                        break
                if not ok:
                    out.append(V('fifo_inversion', f'bus {bus}: {x} enqueued (seq {evs[x]}) before {y} (seq {evs[y]}) but {y} first entered at {fe[y]} < {fe[x]}',
                                 nbuses=len(spec['scn']['buses'])))
    # (b) serial bus: no handler for y enters while a handler of a different event on the same bus is active and not awaiting
    ivs = tr.intervals()
    par = {b for b, c in spec['scn']['buses'].items() if c.get('parallel')}
    for en in tr.enters:
        s, bus, ev = en[0], en[2], en[4]
        if bus in par:
            continue
        for (a, b, bus1, h1, ev1, who1) in ivs:
            if bus1 == bus and ev1 != ev and a < s and (b is None or s < b):
                if tr.awaiting(who1, s) is None:
                    out.append(V('serial_bus_overlap', f'bus {bus}: {en[3]}({ev}) entered at seq {s} while {h1}({ev1}) active and not awaiting'))
    return out[:6]
