"""C03  Awaiting an event (from non-handler code) returns iff its whole handler/descendant tree is done.  (DESIGN.md 4, C03)"""
from __future__ import annotations

import itertools

from ..oracles import Trace, V
from ..world import make  # noqa: F401

LEVEL = 'model_checking'
RULE = ('event trees of depth <= 3 and fan-out <= 2 (children awaited / fire-and-forget / late-awaited, on own or other bus, handlers that raise or pause), '
        'self-recursion to depth 1-4 (recursion-guard territory), main awaiting the root or an inner node, plus an unrelated stallable actor whose wait the explorer '
        'may never complete ("without further stimulus"); all schedules <= L deviations; both bus orders. non-trivial = the external await began before the tree '
        'was complete; distinct = distinct recorder traces')
ASSUMPTIONS = ['no forwarding in these trees (forwarded members are C08), default 300 s handler timeout treated as never; horizon 25 virtual seconds']


def families(tier):
    deep = tier == 'thorough'
    out = []
    cfg = dict(bound=3 if deep else 2, cap=50000 if deep else 2500, window=0.25, max_targets=2)

    def add(fam, sid, buses, hs, main, actors=(), **params):
        orders = [list(buses)] if len(buses) == 1 else [['A', 'B'], ['B', 'A']]
        for o in orders:
            out.append(dict(prop='C03', family=fam, id=f'{fam}/{sid}-o{"".join(o)}', cfg=cfg, params=params,
                            scn=dict(buses={b: {} for b in buses}, order=o, handlers=hs, main=main, actors=list(actors), forwards=[], settle=2.0)))

    stall_actor = [('pause', 'stall'), ('disp', 'A', 'X', 'ff')]
    # trees: P -> C1 (mode1 on bus1) [, C2 (mode2 on A)]; C1 -> G (gmode on gbus); leaf shapes
    for m1, b1, two, gmode, gbus, leaf, target in itertools.product(['ff', 'await', 'late'], 'AB', (False, True), ['none', 'ff', 'await'], 'AB',
                                                                      ['ret', 'pause', 'raise'], ['root', 'inner']):
        if gmode == 'none' and gbus == 'B':
            continue
        if not deep and two and (gmode == 'none' or leaf == 'ret'):
            continue
        buses = ['A', 'B'] if 'B' in (b1, gbus if gmode != 'none' else 'A') else ['A']
        hp = [('disp', b1, 'C1', m1)]
        if two:
            hp.append(('disp', 'A', 'C2', 'ff'))
        if m1 == 'late':
            hp += [('pause',), ('await', 'C1')]
        leafprog = {'ret': [('ret', 1)], 'pause': [('pause',)], 'raise': [('pause',), ('raise', 'ValueError')]}[leaf]
        hc = leafprog if gmode == 'none' else [('disp', gbus, 'G', gmode)] + ([('pause',)] if leaf == 'pause' else [])
        hs = [dict(bus='A', pat='P', name='hp', prog=hp), dict(bus=b1, pat='C', name='hc' + b1, prog=hc)]
        if two and b1 != 'A':
            hs.append(dict(bus='A', pat='C', name='hcA', prog=[('pause',)]))
        if gmode != 'none':
            hs.append(dict(bus=gbus, pat='G', name='hg', prog=leafprog))
        hs.append(dict(bus='A', pat='X', name='hx', prog=[('ret', 0)]))
        if target == 'root':
            main = [('disp', 'A', 'P', 'await')]
        else:
            # await an inner node from outside: main gets hold of C1 once it exists
            main = [('disp', 'A', 'P', 'ff'), ('pause',), ('await', 'C1<hp:P'), ('await', 'P')]
        add('c03.tree', f'{m1}{b1}-t{int(two)}-g{gmode}{gbus}-{leaf}-{target}', buses, hs, main, [stall_actor], leaf=leaf)
    # forwarded descendants: the child (awaited or not) is forwarded to a second bus whose handlers pause
    for m1, fwd_what, down, target, two in itertools.product(['ff', 'await', 'late'], ['all', 'child_only'], ['pause', 'ret', 'g_ff'], ['root', 'inner'], (False, True)):
        if not deep and two and down == 'ret':
            continue
        hp = [('disp', 'A', 'C1', m1)] + ([('disp', 'A', 'C2', 'ff')] if two else []) + ([('pause',), ('await', 'C1')] if m1 == 'late' else [])
        downprog = {'pause': [('pause',)], 'ret': [('ret', 1)], 'g_ff': [('disp', 'B', 'G', 'ff'), ('pause',)]}[down]
        hs = [dict(bus='A', pat='P', name='hp', prog=hp), dict(bus='A', pat='C', name='hcA', prog=[('ret', 0)]), dict(bus='B', pat='C', name='hcB', prog=downprog),
              dict(bus='B', pat='G', name='hgB', prog=[('pause',)]), dict(bus='A', pat='X', name='hx', prog=[('ret', 0)]), dict(bus='B', pat='P', name='hpB', prog=[('ret', 0)])]
        main = [('disp', 'A', 'P', 'await')] if target == 'root' else [('disp', 'A', 'P', 'ff'), ('pause',), ('await', 'C1<hp:P'), ('await', 'P')]
        for o in (['A', 'B'], ['B', 'A']):
            out.append(dict(prop='C03', family='c03.forwarded', id=f'c03.forwarded/{m1}-{fwd_what}-{down}-{target}-t{int(two)}-o{"".join(o)}', cfg=cfg, params=dict(leaf=down),
                            scn=dict(buses={'A': {}, 'B': {}}, order=o, handlers=hs, main=main, actors=[stall_actor], settle=2.0,
                                     forwards=[('A', 'B')] if fwd_what == 'all' else [], fwd_types=[('A', 'C', 'B')] if fwd_what == 'child_only' else [])))
    # parallel_handlers bus: an earlier-registered handler fails (or returns) while a later sibling is still running; also as the awaited child of a serial parent
    for first, second, place in itertools.product(['raise', 'pause_raise', 'ret', 'pause'], ['pause', 'pause_pause', 'c_ff_pause'], ['root', 'child_ff', 'child_aw']):
        ebus, epat = ('A', 'P') if place == 'root' else ('B', 'C')
        p1 = {'raise': [('raise', 'ValueError')], 'pause_raise': [('pause',), ('raise', 'ValueError')], 'ret': [('ret', 1)], 'pause': [('pause',)]}[first]
        p2 = {'pause': [('pause',)], 'pause_pause': [('pause',), ('pause',)], 'c_ff_pause': [('disp', ebus, 'G', 'ff'), ('pause',)]}[second]
        hs = [dict(bus=ebus, pat=epat, name='h1', prog=p1), dict(bus=ebus, pat=epat, name='h2', prog=p2), dict(bus=ebus, pat='G', name='hg', prog=[('pause',)]),
              dict(bus='A', pat='X', name='hx', prog=[('ret', 0)])]
        if place != 'root':
            hs.append(dict(bus='A', pat='P', name='hp', prog=[('disp', 'B', 'C', 'await' if place == 'child_aw' else 'ff')]))
        for o in (['A', 'B'], ['B', 'A']):
            out.append(dict(prop='C03', family='c03.parallel', id=f'c03.parallel/{first}-{second}-{place}-o{"".join(o)}', cfg=cfg, params=dict(leaf=first),
                            scn=dict(buses={'A': dict(parallel=(place == 'root')), 'B': dict(parallel=True)}, order=o, handlers=hs, main=[('disp', 'A', 'P', 'await')], actors=[stall_actor], forwards=[], settle=2.0)))
    # bounded history: a chain of 3-4 nested fire-and-forget dispatches whose ancestors are evicted from a tiny history before the leaf finishes
    for hist, depth, fill in itertools.product((1, 2), (3, 4), (0, 1)):
        chain = ['P', 'C', 'G', 'Q'][:depth]
        hs = []
        for i, t in enumerate(chain):
            prog = ([('disp', 'A', chain[i + 1], 'ff')] + [('disp', 'A', f'Z{i}{j}', 'ff') for j in range(hist * fill)] if i + 1 < depth else []) + [('pause',)]
            hs.append(dict(bus='A', pat=t, name='h' + t, prog=prog))
        hs.append(dict(bus='A', pat='X', name='hx', prog=[('ret', 0)]))
        out.append(dict(prop='C03', family='c03.bounded_history', id=f'c03.bounded_history/h{hist}-d{depth}-f{fill}', cfg=cfg, params=dict(leaf='chain'),
                        scn=dict(buses={'A': dict(hist=hist)}, order=['A'], handlers=hs, main=[('disp', 'A', 'P', 'await')], actors=[stall_actor], forwards=[], settle=2.0)))
    # a handler fans out more children than the target bus accepts (backlog limit, or - with a tiny history - a full queue) and carries on: the tree
    # consists of the ACCEPTED children only, a refused one must not keep the await from returning
    for n, cb, hist in itertools.product((53, 60), 'AB', (50, 5)):
        hs = [dict(bus='A', pat='P', name='hp', prog=[('burst', cb, 'Y', n), ('pause',)]), dict(bus=cb, pat='Y', name='hy', prog=[('ret', 0)], kind='sync'),
              dict(bus='A', pat='X', name='hx', prog=[('ret', 0)])]
        names = ['A', 'B'] if cb == 'B' else ['A']
        for o in ([names] if len(names) == 1 else [names, names[::-1]]):
            out.append(dict(prop='C03', family='c03.refused_children', id=f'c03.refused/n{n}-{cb}-h{hist}-o{"".join(o)}', cfg=dict(cfg, max_points=300, bound=1), params=dict(leaf='refused'),
                            scn=dict(buses={b: dict(hist=hist) for b in names}, order=o, handlers=hs, main=[('disp', 'A', 'P', 'await')], actors=[stall_actor], forwards=[], settle=2.0)))
    # the awaited root is an instance of a subclass that is falsy (an empty batch event, __len__ == 0): completion must not depend on an event's truth value
    for m, cb in itertools.product(('ff', 'await', 'late'), 'AB'):
        names = ['A', 'B'] if cb == 'B' else ['A']
        hp = [('disp', cb, 'C', m)] + ([('pause',), ('await', 'C')] if m == 'late' else [('pause',)] if m == 'await' else [])
        hs = [dict(bus='A', pat='E', name='he', prog=hp), dict(bus=cb, pat='C', name='hc', prog=[('disp', cb, 'G', 'ff'), ('pause',)]), dict(bus=cb, pat='G', name='hg', prog=[('pause',)]),
              dict(bus='A', pat='X', name='hx', prog=[('ret', 0)])]
        for o in ([names] if len(names) == 1 else [names, names[::-1]]):
            out.append(dict(prop='C03', family='c03.falsy_root_event', id=f'c03.falsy/{m}-{cb}-o{"".join(o)}', cfg=cfg, params=dict(leaf='falsy'),
                            scn=dict(buses={b: {} for b in names}, order=o, handlers=hs, main=[('disp', 'A', 'E', 'await')], actors=[stall_actor], forwards=[], settle=2.0)))
    # root awaits middle, middle awaits leaf (both complete); the root's handler then hands the COMPLETED leaf (or middle) to a second bus without waiting and
    # returns: the root is done when that bus is done with it, and must then be signalled - the way up leads through an ancestor that has long been complete
    for which, depth3, hb in itertools.product(('G', 'C'), (True, False), ('pause', 'ret')):
        if which == 'G' and not depth3:
            continue
        hs = [dict(bus='A', pat='P', name='hp', prog=[('disp', 'A', 'C', 'await'), ('redisp_named', 'B', which + '<'), ('ret', 1)]),
              dict(bus='A', pat='C', name='hc', prog=[('disp', 'A', 'G', 'await'), ('ret', 2)] if depth3 else [('ret', 2)]), dict(bus='A', pat='G', name='hg', prog=[('ret', 3)]),
              dict(bus='B', pat=which, name='hB', prog=[('pause',), ('ret', 4)] if hb == 'pause' else [('ret', 4)]), dict(bus='A', pat='X', name='hx', prog=[('ret', 0)])]
        for o in (['A', 'B'], ['B', 'A']):
            out.append(dict(prop='C03', family='c03.completed_descendant_dispatched_again', id=f'c03.again/{which}-d{int(depth3)}-{hb}-o{"".join(o)}', cfg=cfg, params=dict(leaf='again'),
                            scn=dict(buses={'A': {}, 'B': {}}, order=o, handlers=hs, main=[('disp', 'A', 'P', 'await')], actors=[stall_actor], forwards=[], settle=2.0)))
    # self-recursion: hr(R d) dispatches R(d+1) while d < maxdepth
    for maxd, mode, extra in itertools.product((1, 2, 3, 4), ('ff', 'await'), (False, True)):
        hs = [dict(bus='A', pat='R', name='hr', prog=[('recurse', 'A', mode, maxd)] + ([('pause',)] if extra else []))]
        hs.append(dict(bus='A', pat='X', name='hx', prog=[('ret', 0)]))
        add('c03.recursion', f'd{maxd}-{mode}-p{int(extra)}', ['A'], hs, [('disp', 'A', 'R', 'await')], [stall_actor], maxd=maxd)
    # the grammar-generated corpus shared by the bus properties (vsched/gen.py), judged by this property's oracle
    from .. import gen
    out += gen.family('C03', tier, params=dict(leaf='gen'), timeouts=(None, 0.5), main_mode='await_root', allow_forward=False)
    return out


def _ext_awaits(tr):
    return [a for a in tr.awaits if a['who'] not in tr.who_info]


def trigger(spec, res):
    tr = Trace(res)
    return any(not Trace.st_complete(tr.state_at(a['ev'], a['begin'])) for a in _ext_awaits(tr))


def oracle(spec, res):
    tr = Trace(res)
    out = []
    v = res['verdict'][0]
    for a in _ext_awaits(tr):
        deep_rec = spec['params'].get('maxd', 0) >= 3
        if a['kind'] is None:
            if v in ('hang', 'deadlock', 'livelock'):
                out.append(V('await_never_returns', f'{a["who"]} awaiting {a["ev"]}: {res["verdict"]}', recursion_guard=deep_rec))
            continue
        if a['kind'] == 'await-raised':
            out.append(V('await_raised', f'{a}'))
            continue
        if a['kind'] != 'await-end':
            continue
        if a.get('extra') != 'same':
            out.append(V('await_returned_other_object', f'{a}'))
        bad = [(d, tr.state_at(d, a['end'])) for d in sorted(tr.desc(a['ev'], upto_seq=a['end']))
               if not (Trace.st_complete if d == a['ev'] else Trace.st_done)(tr.state_at(d, a['end']))]
        if bad:
            out.append(V('returned_before_tree_done', f'await {a["ev"]} returned at seq {a["end"]} with {bad}', recursion_guard=deep_rec))
        # harness-side completeness: on every bus a tree member was accepted on (dispatch or forwarding), its handlers there have finished
        pend = [(d, tr.unprocessed(spec['scn'], d, a['end'])) for d in sorted(tr.desc(a['ev'], upto_seq=a['end']))]
        pend = [(d, u) for d, u in pend if u]
        if pend and not bad:
            out.append(V('returned_before_tree_done_on_every_bus', f'await {a["ev"]} returned at seq {a["end"]}; still to run: {pend}', recursion_guard=deep_rec))
        rel = tr.desc(a['ev'])
        late = [en for en in tr.enters if en[0] > a['end'] and en[4] in rel]
        if late:
            out.append(V('handler_entered_after_return', f'await {a["ev"]} returned at seq {a["end"]}; later entries {late[:2]}'))
    if v == 'raised':
        out.append(V('main_raised', str(res['verdict'])))
    if v == 'done':
        # the other direction of the 'iff', for every event of the run: at quiescence (nothing runnable, no timer left) an event whose whole tree is
        # terminal must have its completion signal set - an ordinary-code await on it waits for exactly that signal and would otherwise never return
        fin = res['final']['events']

        def tree_done(ev, seen=()):
            fe = fin.get(ev)
            if fe is None or ev in seen:
                return True
            if not fe['results'] and fe['status'] != 'completed':
                return False
            return all(r['status'] in ('completed', 'error') and all(tree_done(c, seen + (ev,)) for c in r['children']) for r in fe['results'])
        for ev, fe in fin.items():
            if not fe['sig'] and fe['results'] and tree_done(ev):
                out.append(V('tree_done_but_completion_never_signalled', f'{ev}: status {fe["status"]}, results {[(r["h"], r["status"]) for r in fe["results"]]}, children '
                             f'{[(c, fin.get(c, {}).get("status")) for r in fe["results"] for c in r["children"]]}: an await on it would never return'))
    return out
