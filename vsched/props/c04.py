"""C04  In-handler await of a child never deadlocks and returns it complete.  (DESIGN.md 4, C04)"""
from __future__ import annotations

import itertools

from ..oracles import Trace, V
from ..world import make  # noqa: F401

LEVEL = 'model_checking'
RULE = ('scenarios generated from a grammar: handler hp on bus A dispatches child C to bus Y in {A,B}, k in {0,1,2} pauses, then awaits it; '
        'child handler shapes {return, pause, raise, grandchild ff/awaited on either bus, nested to depth 3-4}; target bus already running or first used here; '
        'extra queued traffic; forwarding none/A->B/B->A; both bus-iteration orders; every schedule with <= L deviations. '
        'non-trivial = an in-handler await began while the child was incomplete; distinct = distinct recorder traces (virtual times stripped)')
ASSUMPTIONS = ['a handler stuck until the 25 s virtual horizon counts as deadlocked (the default 300 s handler timeout is treated as "never")']


def scenarios(tier):
    out = []
    deep = tier == 'thorough'
    child_shapes = ['ret', 'pause', 'raise', 'g_ff_same', 'g_aw_same', 'g_aw_other', 'g_ff_other']
    if deep:
        child_shapes += ['g_aw_same_gg', 'pause_g_aw_other']
    for nb, ybus, k, shape, warm, extra, fwd in itertools.product((1, 2), 'AB', (0, 1, 2), child_shapes, (False, True), (False, True), ('none', 'AB', 'BA')):
        if nb == 1 and (ybus == 'B' or fwd != 'none' or warm):
            continue
        if nb == 1 and 'other' in shape:
            continue
        if fwd != 'none' and (shape not in ('ret', 'pause', 'g_aw_same', 'g_ff_same') or extra):
            continue
        if not deep and k == 2 and shape not in ('ret', 'pause', 'g_aw_other'):
            continue
        other = 'A' if ybus == 'B' else 'B'
        buses = {'A': {}} if nb == 1 else {'A': {}, 'B': {}}
        hp = [('disp', ybus, 'C', 'late')] + [('pause',)] * k + [('await', 'C')]
        handlers = [dict(bus='A', pat='P', name='hp', prog=hp)]
        hc = {'ret': [('ret', 1)], 'pause': [('pause',)], 'raise': [('raise', 'ValueError')],
              'g_ff_same': [('disp', ybus, 'G', 'ff')], 'g_aw_same': [('disp', ybus, 'G', 'await')],
              'g_aw_other': [('disp', other, 'G', 'await')], 'g_ff_other': [('disp', other, 'G', 'ff')],
              'g_aw_same_gg': [('disp', ybus, 'G', 'await')], 'pause_g_aw_other': [('pause',), ('disp', other, 'G', 'await')]}[shape]
        handlers.append(dict(bus=ybus, pat='C', name='hc', prog=hc))
        if shape.startswith('g_') or shape.startswith('pause_g'):
            gbus = other if 'other' in shape else ybus
            gprog = [('pause',)]
            if shape == 'g_aw_same_gg':
                gprog = [('disp', 'A', 'Q', 'await')]
                handlers.append(dict(bus='A', pat='Q', name='hq', prog=[('pause',)]))
            handlers.append(dict(bus=gbus, pat='G', name='hg', prog=gprog))
        if fwd != 'none':
            # the child must not be handled twice by the same harness handler name: give the forwarded-to bus its own handler
            dst = fwd[1]
            handlers.append(dict(bus=dst, pat='C', name='hc_' + dst, prog=[('ret', 2)])) if dst != ybus else None
            if shape.startswith('g_') and not any(h['bus'] == dst and h['pat'] == 'G' for h in handlers):
                handlers.append(dict(bus=dst, pat='G', name='hg_' + dst, prog=[('pause',)]))
        main = []
        if warm:
            main.append(('disp', 'B', 'X', 'await'))
        main.append(('disp', 'A', 'P', 'late'))
        actors = []
        if extra:
            main.append(('disp', ybus, 'X', 'ff'))
            # plus an external dispatcher racing with the handlers: its dispatches land at every point of the await
            actors = [[('pause',), ('disp', ybus, 'X2', 'ff'), ('pause',), ('disp', 'A', 'X3', 'ff')]]
        main.append(('await', 'P'))
        if warm or extra:
            for b in buses:
                handlers.append(dict(bus=b, pat='X', name='hx' + b, prog=[('ret', 0)]))
        orders = [['A']] if nb == 1 else [['A', 'B'], ['B', 'A']]
        forwards = [] if fwd == 'none' else [(fwd[0], fwd[1])]
        for order in orders:
            sid = f'c04/nb{nb}-y{ybus}-k{k}-{shape}-w{int(warm)}-x{int(extra)}-f{fwd}-o{"".join(order)}'
            out.append(dict(prop='C04', family='c04.await_child', id=sid,
                            scn=dict(buses=buses, order=order, forwards=forwards, handlers=handlers, main=main, actors=actors, settle=1.0),
                            params=dict(nb=nb, ybus=ybus, k=k, shape=shape, warm=warm, extra=extra, fwd=fwd),
                            cfg=dict(bound=3 if deep else 2, cap=40000 if deep else 4000, window=0.35, max_targets=2)))
    return out


def families(tier):
    out = scenarios(tier)
    # an in-handler await AFTER an earlier handler was cut off by its time-out in the middle of its own in-handler await (same / other bus, serial / parallel)
    deep = tier == 'thorough'
    for b1, b2, par, cshape in itertools.product('AB', 'AB', (False, True), ('pause', 'g_aw')):
        names = ['A', 'B'] if 'B' in (b1, b2) else ['A']
        hc = [('pause',), ('pause',)] if cshape == 'pause' else [('disp', b1, 'G', 'await')]
        hs = [dict(bus='A', pat='P', name='hp', prog=[('disp', b1, 'C', 'await'), ('pause',)]), dict(bus=b1, pat='C', name='hc', prog=hc), dict(bus=b1, pat='G', name='hg', prog=[('pause',), ('pause',)]),
              dict(bus='A', pat='Q', name='hq', prog=[('disp', b2, 'X', 'await'), ('ret', 1)]), dict(bus=b2, pat='X', name='hx', prog=[('pause',), ('ret', 2)])]
        if par:
            hs.append(dict(bus='A', pat='Q', name='hq2', prog=[('disp', b2, 'X2', 'await'), ('ret', 1)]))
        main = [('disp', 'A', 'P', 'ff', {'timeout': 0.5}), ('disp', 'A', 'Q', 'late'), ('await', 'Q')]
        for order in ([names] if len(names) == 1 else [names, names[::-1]]):
            out.append(dict(prop='C04', family='c04.after_timeout', id=f'c04/after-tmo-{b1}{b2}-p{int(par)}-{cshape}-o{"".join(order)}',
                            cfg=dict(bound=3 if deep else 2, cap=20000 if deep else 2500, window=0.8, max_targets=2), params=dict(nb=len(names), ybus=b2, k=0, shape='after_timeout', warm=False, extra=False, fwd='none'),
                            scn=dict(buses={b: dict(parallel=(par and b == 'A')) for b in names}, order=order, forwards=[], handlers=hs, main=main, actors=[], settle=2.0)))
    # a chain of fire-and-forget dispatches three and four levels below the awaited child (child -> grandchild -> great-grandchild [-> one more]), on the same or another bus:
    # the await returns only when the LAST of them is complete
    for depth, gbus, k in itertools.product((3, 4), 'AB', (0, 1)):
        names = ['A', 'B'] if gbus == 'B' else ['A']
        chain = ['C', 'G', 'Q', 'Z'][:depth]
        hs = [dict(bus='A', pat='P', name='hp', prog=[('disp', 'A', 'C', 'late')] + [('pause',)] * k + [('await', 'C'), ('ret', 1)])]
        for i, t in enumerate(chain):
            b = 'A' if i % 2 == 0 else gbus
            nxt = [('disp', 'A' if (i + 1) % 2 == 0 else gbus, chain[i + 1], 'ff')] if i + 1 < depth else [('pause',)]
            hs.append(dict(bus=b, pat=t, name='h' + t, prog=nxt + [('ret', i)]))
        hs.append(dict(bus='A', pat='X', name='hx', prog=[('ret', 0)]))
        for order in ([names] if len(names) == 1 else [names, names[::-1]]):
            out.append(dict(prop='C04', family='c04.deep_unawaited_chain', id=f'c04/deep-d{depth}-{gbus}-k{k}-o{"".join(order)}', cfg=dict(bound=3 if deep else 2, cap=20000 if deep else 2500, window=0.25, max_targets=2),
                            params=dict(nb=len(names), ybus='A', k=k, shape='deep', warm=False, extra=False, fwd='none'),
                            scn=dict(buses={b: {} for b in names}, order=order, forwards=[], handlers=hs, main=[('disp', 'A', 'P', 'late'), ('disp', 'A', 'X', 'ff'), ('await', 'P')], actors=[], settle=2.0)))
    # the awaited child, or a fire-and-forget grandchild the await has to wait for, is an instance of a subclass that is FALSY (an empty batch event)
    for ybus, k, where in itertools.product('AB', (0, 1), ('child', 'grandchild')):
        names = ['A', 'B'] if ybus == 'B' else ['A']
        if where == 'child':
            hs = [dict(bus='A', pat='P', name='hp', prog=[('disp', ybus, 'E', 'late')] + [('pause',)] * k + [('await', 'E'), ('ret', 1)]), dict(bus=ybus, pat='E', name='he', prog=[('pause',), ('ret', 2)])]
        else:
            hs = [dict(bus='A', pat='P', name='hp', prog=[('disp', ybus, 'C', 'late')] + [('pause',)] * k + [('await', 'C'), ('ret', 1)]),
                  dict(bus=ybus, pat='C', name='hc', prog=[('disp', ybus, 'E', 'ff'), ('ret', 2)]), dict(bus=ybus, pat='E', name='he', prog=[('pause',), ('ret', 3)])]
        hs.append(dict(bus='A', pat='X', name='hx', prog=[('ret', 0)]))
        for order in ([names] if len(names) == 1 else [names, names[::-1]]):
            out.append(dict(prop='C04', family='c04.falsy_child_event', id=f'c04/falsy-{where}-{ybus}-k{k}-o{"".join(order)}', cfg=dict(bound=3 if deep else 2, cap=20000 if deep else 2500, window=0.25, max_targets=2),
                            params=dict(nb=len(names), ybus=ybus, k=k, shape='falsy', warm=False, extra=False, fwd='none'),
                            scn=dict(buses={b: {} for b in names}, order=order, forwards=[], handlers=hs, main=[('disp', 'A', 'P', 'late'), ('disp', 'A', 'X', 'ff'), ('await', 'P')], actors=[], settle=2.0)))
    # the grammar-generated corpus shared by the bus properties (vsched/gen.py), judged by this property's oracle
    from .. import gen
    out += gen.family('C04', tier, params=dict(k=0), timeouts=(None,))
    return out


def trigger(spec, res):
    tr = Trace(res)
    for a in tr.awaits:
        if a['who'] in tr.who_info and not Trace.st_complete(tr.state_at(a['ev'], a['begin'])):
            return True
    return False


def oracle(spec, res):
    tr = Trace(res)
    out = []
    p = spec['params']
    v = res['verdict'][0]
    for a in tr.awaits:
        info = tr.who_info.get(a['who'])
        if info is None:
            continue  # external await: C03's business
        hbus = info[0]
        cb = tr.first_disp.get(a['ev'])
        child_bus = cb[3] if cb else None
        tags = dict(xbus=bool(child_bus and child_bus != hbus), pauses=min(p['k'], 1))
        if a['kind'] is None:
            if v in ('hang', 'deadlock', 'livelock'):
                out.append(V('await_never_returns', f'{a["who"]} awaiting {a["ev"]} verdict={res["verdict"]}', **tags))
            continue
        if a['kind'] != 'await-end':
            continue  # cancelled by its own timeout / raised: not this clause
        if a.get('extra') != 'same':
            out.append(V('await_returned_other_object', f'{a}', **tags))
        bad = []
        for d in sorted(tr.desc(a['ev'], upto_seq=a['end'])):
            st = tr.state_at(d, a['end'])
            if not (Trace.st_complete if d == a['ev'] else Trace.st_done)(st):
                bad.append((d, st))
        pend = [(d, tr.unprocessed(spec['scn'], d, a['end'])) for d in sorted(tr.desc(a['ev'], upto_seq=a['end']))]
        pend = [(d, u) for d, u in pend if u]
        if pend and not bad:
            out.append(V('descendant_not_processed_on_every_bus_at_await_end', f'{a["who"]} await {a["ev"]} returned at seq {a["end"]}; still to run: {pend}', **tags))
        if bad:
            clause = 'child_incomplete_at_await_end' if any(d == a['ev'] for d, _ in bad) else 'descendant_incomplete_at_await_end'
            out.append(V(clause, f'{a["who"]} await {a["ev"]} returned at seq {a["end"]} with {bad}', **tags))
    if v in ('deadlock', 'livelock') and not out:
        out.append(V('verdict_' + v, str(res['verdict'])))
    if v == 'raised':
        out.append(V('main_raised', str(res['verdict'])))
    return out
