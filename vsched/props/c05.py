"""C05  Awaited child jumps the queue (documented semantics).  (DESIGN.md 4, C05)"""
from __future__ import annotations

import itertools

from ..oracles import Trace, V
from ..world import make  # noqa: F401

LEVEL = 'model_checking'
RULE = ('serial buses only. handler hp on A awaits child C on bus Y in {A,B}; 0-3 unrelated events already waiting on the child bus and/or the other bus, '
        'enqueued before the parent, between parent and await (by an actor) or after the child; child with/without awaited or fire-and-forget descendants; '
        '0-1 pause before the await; all schedules <= L deviations; both bus orders. non-trivial = the await began with the child incomplete and at least one '
        'unrelated event queued or arriving during the await; distinct = distinct recorder traces')
ASSUMPTIONS = ['parallel_handlers buses excluded: sibling handlers of the parent legitimately start during the await',
               'the window is [await-begin, first instant the child is observed complete or the await returns]']


def families(tier):
    deep = tier == 'thorough'
    out = []
    cfg = dict(bound=4 if deep else 2, cap=50000 if deep else 2500, window=0.25, max_targets=2)
    for ybus, before, other_q, late, cshape, k in itertools.product('AB', (0, 1, 2), (0, 1), ('none', 'actor', 'handler'), ('ret', 'pause', 'g_aw', 'g_ff', 'g_ff_other', 'g_aw_other'), (0, 1)):
        if before == 0 and other_q == 0 and late == 'none':
            continue
        if cshape.endswith('_other') and (not other_q or (not deep and (late != 'none' or k))):
            continue  # (the grandchild goes to the OTHER bus, which the awaited child never visits and which already holds an unrelated event)
        if not deep and k == 1 and cshape in ('g_ff',):
            continue
        other = 'A' if ybus == 'B' else 'B'
        buses = {'A': {}, 'B': {}} if (ybus == 'B' or other_q) else {'A': {}}
        hp = [('disp', ybus, 'C', 'late')] + [('pause',)] * k
        if late == 'handler':
            hp.append(('disp', ybus, 'Z', 'ff'))  # enqueued after the child, by the awaiting handler itself
        hp.append(('await', 'C'))
        hc = {'ret': [('ret', 1)], 'pause': [('pause',)], 'g_aw': [('disp', ybus, 'G', 'await')], 'g_ff': [('disp', ybus, 'G', 'ff')],
              'g_ff_other': [('disp', other, 'G', 'ff')], 'g_aw_other': [('disp', other, 'G', 'await')]}[cshape]
        hs = [dict(bus='A', pat='P', name='hp', prog=hp), dict(bus=ybus, pat='C', name='hc', prog=hc)]
        if cshape.startswith('g_'):
            hs.append(dict(bus=other if cshape.endswith('_other') else ybus, pat='G', name='hg', prog=[('pause',)]))
        for b in buses:
            hs.append(dict(bus=b, pat='X', name='hx' + b, prog=[('ret', 0)]))
            hs.append(dict(bus=b, pat='Z', name='hz' + b, prog=[('ret', 0)]))
        main = [('disp', 'A', 'P', 'ff')]
        # unrelated events waiting on the child's bus, enqueued before the child exists (X1, X2) and on the other bus (X3)
        main += [('disp', ybus, f'X{i + 1}', 'ff') for i in range(before)]
        if other_q:
            main += [('disp', other, 'X3', 'ff')]
        actors = [[('pause',), ('disp', ybus, 'Z', 'ff')]] if late == 'actor' else []
        orders = [list(buses)] if len(buses) == 1 else [['A', 'B'], ['B', 'A']]
        for o in orders:
            sid = f'y{ybus}-b{before}-q{other_q}-{late}-{cshape}-k{k}-o{"".join(o)}'
            out.append(dict(prop='C05', family='c05.queue_jump', id='c05/' + sid, cfg=cfg, params=dict(ybus=ybus, before=before, k=k),
                            scn=dict(buses=buses, order=o, handlers=hs, main=main, actors=actors, forwards=[], settle=3.0)))
            if before and late == 'none' and cshape in ('ret', 'pause') and k == 0 and len(buses) == 2:
                # the same with a second EventBus constructed under the name of the child's bus / of the awaiting bus (it is renamed; the older bus must stay findable)
                for dup in ('A', 'B'):
                    out.append(dict(prop='C05', family='c05.queue_jump_renamed_twin', id=f'c05/twin{dup}-' + sid, cfg=cfg, params=dict(ybus=ybus, before=before, k=k),
                                    scn=dict(buses=buses, order=o, handlers=hs, main=main, actors=actors, forwards=[], settle=3.0, dup_names=[dup])))
    # the grammar-generated corpus shared by the bus properties (vsched/gen.py), judged by this property's oracle
    from .. import gen
    out += gen.family('C05', tier, params=dict(ybus='?', before=0, k=0), timeouts=(None,), allow_parallel=False)
    return out


def _windows(tr):
    for a in tr.awaits:
        if a['who'] not in tr.who_info:
            continue
        # the window of the statement runs from the start of the await to the child's COMPLETION.  It ends earlier only where the handler gave the
        # await up (cancelled / raised: a time-out of its own or of an enclosing handler); an await that simply returns before the child is complete
        # does not close it (the child was then not 'processed immediately, before any other pending event')
        done = None
        s = tr.states.get(a['ev'])
        if s:
            for seq, st in zip(*s):
                if seq > a['begin'] and Trace.st_complete(st):
                    done = seq
                    break
        end = done if done is not None else tr.end_seq
        if a['end'] is not None and a['kind'] != 'await-end':
            end = min(end, a['end'])
        yield a, end


def trigger(spec, res):
    tr = Trace(res)
    for a, end in _windows(tr):
        if not Trace.st_complete(tr.state_at(a['ev'], a['begin'])):
            return True
    return False


def oracle(spec, res):
    tr = Trace(res)
    out = []
    if res['verdict'][0] != 'done':
        return out  # liveness is C04's clause
    for a, end in _windows(tr):
        rel = tr.desc(a['ev'])
        hbus = tr.who_info[a['who']][0]
        cb = tr.first_disp.get(a['ev'])
        for en in tr.enters:
            if a['begin'] < en[0] < end and en[4] not in rel:
                fd = next((d for d in tr.dispatches if d[4] == en[4] and d[3] == en[2] and d[5] == 'ok'), None)
                out.append(V('unrelated_event_handled_during_await',
                             f'{a["who"]} awaiting {a["ev"]} (seq {a["begin"]}..{end}): {en[2]}.{en[3]} entered for {en[4]} at seq {en[0]}',
                             enqueued_before_child=bool(fd and cb and fd[0] < cb[0]), same_bus=bool(cb and en[2] == cb[3])))
                break
    return out
