"""C06  Cross-bus mutual exclusion of event processing.  (DESIGN.md 4, C06)"""
from __future__ import annotations

import itertools

from ..oracles import Trace, V
from ..world import make  # noqa: F401

LEVEL = 'model_checking'
RULE = ('2-3 buses, serial and parallel_handlers, each first used from main, from an external actor or from inside a handler of another bus (all combinations); '
        'handlers that pause without awaiting, that await children on own/other bus, that fire-and-forget to another bus; optional forwarding; all schedules <= L '
        'deviations; both bus orders. non-trivial = two buses each had a handler entry and some handler was suspended; distinct = distinct recorder traces')
ASSUMPTIONS = ['overlap is judged on harness enter/exit records with global sequence numbers']


def families(tier):
    deep = tier == 'thorough'
    out = []
    cfg = dict(bound=3 if deep else 2, cap=50000 if deep else 2500, window=0.25, max_targets=2)
    for first_b, pshape, par_a, par_b, cshape, fwd in itertools.product(['main', 'actor', 'handler', 'main_warm'], ['ff_pause', 'aw', 'late', 'ff_ff_pause'],
                                                                        (False, True), (False, True), ['pause', 'ret', 'g_aw_A'], (False, True)):
        if fwd and (pshape != 'ff_pause' or cshape != 'pause'):
            continue
        if not deep and par_a and par_b and cshape == 'ret':
            continue
        hp = {'ff_pause': [('disp', 'B', 'C', 'ff'), ('pause',)], 'aw': [('disp', 'B', 'C', 'await')], 'late': [('disp', 'B', 'C', 'late'), ('pause',), ('await', 'C')],
              'ff_ff_pause': [('disp', 'B', 'C', 'ff'), ('disp', 'B', 'C2', 'ff'), ('pause',), ('pause',)]}[pshape]
        hc = {'pause': [('pause',)], 'ret': [('ret', 1)], 'g_aw_A': [('disp', 'A', 'G', 'await')]}[cshape]
        hs = [dict(bus='A', pat='P', name='hp', prog=hp), dict(bus='A', pat='P', name='hp2', prog=[('pause',)]),
              dict(bus='B', pat='C', name='hc', prog=hc), dict(bus='B', pat='C', name='hc2', prog=[('pause',)]),
              dict(bus='A', pat='G', name='hg', prog=[('pause',)]), dict(bus='B', pat='X', name='hxB', prog=[('pause',)]),
              dict(bus='A', pat='X', name='hxA', prog=[('pause',)])]
        main, actors = [], []
        if first_b == 'main':
            main = [('disp', 'B', 'X', 'ff'), ('disp', 'A', 'P', 'ff')]
        elif first_b == 'main_warm':
            main = [('disp', 'B', 'X', 'await'), ('disp', 'A', 'P', 'ff'), ('disp', 'A', 'X', 'ff')]
        elif first_b == 'actor':
            main = [('disp', 'A', 'P', 'ff')]
            actors = [[('pause',), ('disp', 'B', 'X', 'ff')]]
        else:
            main = [('disp', 'A', 'P', 'ff'), ('pause',), ('disp', 'A', 'X', 'ff')]  # B is first used inside hp
        for o in (['A', 'B'], ['B', 'A']):
            sid = f'{first_b}-{pshape}-pa{int(par_a)}-pb{int(par_b)}-{cshape}-f{int(fwd)}-o{"".join(o)}'
            out.append(dict(prop='C06', family='c06.mutex.' + ('parallel' if (par_a or par_b) else 'serial'), id='c06/' + sid, cfg=cfg,
                            params=dict(first_b=first_b, par_a=par_a, par_b=par_b),
                            scn=dict(buses={'A': dict(parallel=par_a), 'B': dict(parallel=par_b)}, order=o, handlers=hs, main=main, actors=actors,
                                     forwards=[('A', 'B')] if fwd else [], settle=3.0)))
    # a handler of a parallel_handlers bus fails (at once / after a wait) while a sibling handler of the same event is still running
    for rshape, sib, cshape in itertools.product(['raise', 'pause_raise', 'ret'], ['pause', 'pause_pause'], ['pause', 'ret']):
        hp = {'raise': [('raise', 'ValueError')], 'pause_raise': [('pause',), ('raise', 'ValueError')], 'ret': [('ret', 1)]}[rshape]
        hs = [dict(bus='A', pat='P', name='hp', prog=hp), dict(bus='A', pat='P', name='hp2', prog=[('pause',)] * (2 if sib == 'pause_pause' else 1)),
              dict(bus='B', pat='X', name='hxB', prog=[('pause',)] if cshape == 'pause' else [('ret', 0)]), dict(bus='A', pat='X', name='hxA', prog=[('pause',)])]
        for o in (['A', 'B'], ['B', 'A']):
            out.append(dict(prop='C06', family='c06.mutex.parallel', id=f'c06/sibfail-{rshape}-{sib}-{cshape}-o{"".join(o)}', cfg=cfg, params=dict(first_b='main', par_a=True, par_b=False),
                            scn=dict(buses={'A': dict(parallel=True), 'B': {}}, order=o, handlers=hs, main=[('disp', 'B', 'X0', 'await'), ('disp', 'A', 'P', 'ff'), ('disp', 'B', 'X', 'ff'), ('disp', 'A', 'X', 'ff')],
                                     actors=[], forwards=[], settle=3.0)))
    # first use of bus B is wait_until_idle() / a dispatch made from inside a handler of A, before anything else touched B
    for how, par_a, cshape in itertools.product(['idle_then_ff', 'idle_then_aw', 'ff_idle'], (False, True), ['pause', 'ret']):
        hp = {'idle_then_ff': [('idle', 'B'), ('disp', 'B', 'C', 'ff'), ('pause',), ('pause',)], 'idle_then_aw': [('idle', 'B'), ('disp', 'B', 'C', 'ff'), ('pause',), ('disp', 'B', 'C2', 'await')],
              'ff_idle': [('disp', 'B', 'C', 'ff'), ('pause',), ('idle', 'B'), ('pause',)]}[how]
        hs = [dict(bus='A', pat='P', name='hp', prog=hp), dict(bus='B', pat='C', name='hc', prog=[('pause',)] if cshape == 'pause' else [('ret', 1)]),
              dict(bus='A', pat='X', name='hxA', prog=[('pause',)]), dict(bus='B', pat='X', name='hxB', prog=[('pause',)])]
        for o in (['A', 'B'], ['B', 'A']):
            out.append(dict(prop='C06', family='c06.mutex.' + ('parallel' if par_a else 'serial'), id=f'c06/firstuse-{how}-pa{int(par_a)}-{cshape}-o{"".join(o)}', cfg=dict(cfg, window=0.35),
                            params=dict(first_b='wait_until_idle_in_handler', par_a=par_a, par_b=False),
                            scn=dict(buses={'A': dict(parallel=par_a), 'B': {}}, order=o, handlers=hs, main=[('disp', 'A', 'P', 'ff'), ('pause',), ('disp', 'B', 'X', 'ff'), ('disp', 'A', 'X', 'ff')],
                                     actors=[], forwards=[], settle=3.0)))
    # parallel_handlers bus: two sibling handlers of one event EACH awaiting a child (on the other / the same bus)
    for b1, b2, par_b, k in itertools.product('AB', 'AB', (False, True), (0, 1)):
        hs = [dict(bus='A', pat='P', name='h1', prog=[('pause',)] * k + [('disp', b1, 'C', 'await')]),
              dict(bus='A', pat='P', name='h2', prog=[('disp', b2, 'G', 'await')]),
              dict(bus=b1, pat='C', name='hc', prog=[('pause',)]), dict(bus=b2, pat='G', name='hg', prog=[('pause',)])]
        for o in (['A', 'B'], ['B', 'A']):
            out.append(dict(prop='C06', family='c06.mutex.parallel_siblings', id=f'c06/sib-{b1}{b2}-pb{int(par_b)}-k{k}-o{"".join(o)}', cfg=cfg,
                            params=dict(first_b='main', par_a=True, par_b=par_b),
                            scn=dict(buses={'A': dict(parallel=True), 'B': dict(parallel=par_b)}, order=o, handlers=hs,
                                     main=[('disp', 'B', 'X', 'await'), ('disp', 'A', 'P', 'ff')], actors=[], forwards=[], settle=3.0)))
    # a sibling that awaits TWO children one after the other while the other sibling awaits one: turns must be taken on the same lock every time
    for b1, b2, o in itertools.product('AB', 'AB', (['A', 'B'], ['B', 'A'])):
        hs = [dict(bus='A', pat='P', name='h1', prog=[('disp', b1, 'C', 'await'), ('disp', b1, 'C2', 'await'), ('pause',)]),
              dict(bus='A', pat='P', name='h2', prog=[('pause',), ('disp', b2, 'G', 'await'), ('disp', b2, 'G2', 'await')]),
              dict(bus=b1, pat='C', name='hc', prog=[('pause',)]), dict(bus=b2, pat='G', name='hg', prog=[('pause',)])]
        out.append(dict(prop='C06', family='c06.mutex.parallel_siblings', id=f'c06/sib-twice-{b1}{b2}-o{"".join(o)}', cfg=cfg, params=dict(first_b='main', par_a=True, par_b=False),
                        scn=dict(buses={'A': dict(parallel=True), 'B': {}}, order=o, handlers=hs, main=[('disp', 'B', 'X', 'await'), ('disp', 'A', 'P', 'ff')], actors=[], forwards=[], settle=3.0)))
    # processing of an event on a parallel_handlers bus is interrupted (the awaiting parent on serial A times out) while one of its handlers needs 0.3 s to clean up;
    # a third bus has work queued: nothing may start on it before that clean-up is over
    for o in (['A', 'B', 'C'], ['C', 'B', 'A']):
        hs = [dict(bus='A', pat='P', name='hp', prog=[('disp', 'B', 'C', 'await'), ('pause',)]), dict(bus='B', pat='C', name='hc1', prog=[('pause',)]),
              dict(bus='B', pat='C', name='hc2', prog=[('guarded_pause', 0.3)]), dict(bus='C', pat='X', name='hxC', prog=[('pause',)]), dict(bus='A', pat='X', name='hxA', prog=[('ret', 0)])]
        out.append(dict(prop='C06', family='c06.mutex.parallel', id=f'c06/slow-cleanup-o{"".join(o)}', cfg=dict(cfg, window=1.2, max_targets=3), params=dict(first_b='main', par_a=False, par_b=True),
                        scn=dict(buses={'A': {}, 'B': dict(parallel=True), 'C': {}}, order=o, handlers=hs,
                                 main=[('disp', 'C', 'X0', 'await'), ('disp', 'A', 'P', 'ff', {'timeout': 0.5}), ('disp', 'C', 'X', 'ff'), ('disp', 'A', 'X2', 'ff')], actors=[], forwards=[], settle=3.0)))
    # a sibling gives up its await (caller-side wait_for) while it is still queued for its turn, then awaits another child
    for b1, b2, o in itertools.product('AB', 'AB', (['A', 'B'], ['B', 'A'])):
        hs = [dict(bus='A', pat='P', name='h1', prog=[('disp', b1, 'C', 'await'), ('pause',)]),
              dict(bus='A', pat='P', name='h2', prog=[('pause',), ('await_tmo', b2, 'G', 0.5), ('disp', b2, 'G2', 'await')]),
              dict(bus='A', pat='P', name='h3', prog=[('pause',), ('pause',), ('disp', b2, 'Q', 'await')]),
              dict(bus=b1, pat='C', name='hc', prog=[('pause',), ('pause',)]), dict(bus=b2, pat='G', name='hg', prog=[('pause',)]), dict(bus=b2, pat='Q', name='hq', prog=[('pause',)])]
        out.append(dict(prop='C06', family='c06.mutex.parallel_siblings', id=f'c06/sib-giveup-{b1}{b2}-o{"".join(o)}', cfg=dict(cfg, window=0.7, max_targets=2), params=dict(first_b='main', par_a=True, par_b=False),
                        scn=dict(buses={'A': dict(parallel=True), 'B': {}}, order=o, handlers=hs, main=[('disp', 'B', 'X', 'await'), ('disp', 'A', 'P', 'ff')], actors=[], forwards=[], settle=3.0)))
    # the same one level down: a single handler awaits a child whose TWO handlers (parallel bus) each await a grandchild
    for gb1, gb2, o in itertools.product('AB', 'AB', (['A', 'B'], ['B', 'A'])):
        hs = [dict(bus='A', pat='P', name='hp', prog=[('disp', 'A', 'C', 'await'), ('pause',)]),
              dict(bus='A', pat='C', name='hc1', prog=[('disp', gb1, 'G', 'await')]), dict(bus='A', pat='C', name='hc2', prog=[('pause',), ('disp', gb2, 'Q', 'await')]),
              dict(bus=gb1, pat='G', name='hg', prog=[('pause',)]), dict(bus=gb2, pat='Q', name='hq', prog=[('pause',)])]
        out.append(dict(prop='C06', family='c06.mutex.parallel_siblings', id=f'c06/sib2-{gb1}{gb2}-o{"".join(o)}', cfg=cfg, params=dict(first_b='main', par_a=True, par_b=False),
                        scn=dict(buses={'A': dict(parallel=True), 'B': {}}, order=o, handlers=hs, main=[('disp', 'B', 'X', 'await'), ('disp', 'A', 'P', 'ff')], actors=[], forwards=[], settle=3.0)))
    # three buses: a chain of first uses inside handlers
    for pshape, o in itertools.product(['ff', 'aw'], itertools.permutations('ABC')):
        if not deep and o not in (('A', 'B', 'C'), ('C', 'B', 'A')):
            continue
        mode = 'ff' if pshape == 'ff' else 'await'
        hs = [dict(bus='A', pat='P', name='hp', prog=[('disp', 'B', 'C', mode), ('pause',)]),
              dict(bus='B', pat='C', name='hc', prog=[('disp', 'C', 'G', mode), ('pause',)]),
              dict(bus='C', pat='G', name='hg', prog=[('pause',)]), dict(bus='A', pat='X', name='hxA', prog=[('pause',)])]
        out.append(dict(prop='C06', family='c06.mutex.serial', id=f'c06/three-{pshape}-o{"".join(o)}', cfg=cfg, params=dict(first_b='handler', par_a=False, par_b=False),
                        scn=dict(buses={'A': {}, 'B': {}, 'C': {}}, order=list(o), handlers=hs, main=[('disp', 'A', 'P', 'ff'), ('disp', 'A', 'X', 'ff')], actors=[], forwards=[], settle=3.0)))
    # ONE handler (serial or parallel bus) awaits two children concurrently through asyncio.gather: two tasks that both carry the handler's
    # 'I hold the lock' context process their child inline - they must still take turns
    for b1, b2, par_a, cshape in itertools.product('BC', 'BC', (False, True), ('pause', 'pause_pause')):
        hc = [('pause',)] * (2 if cshape == 'pause_pause' else 1)
        hs = [dict(bus='A', pat='P', name='hp', prog=[('gather_await', [(b1, 'C'), (b2, 'C2')]), ('pause',)]),
              dict(bus='B', pat='C', name='hcB', prog=hc), dict(bus='C', pat='C', name='hcC', prog=hc), dict(bus='A', pat='X', name='hxA', prog=[('ret', 0)])]
        main = [('disp', 'A', 'P', 'ff'), ('disp', 'A', 'X', 'ff')]
        for o in (['A', 'B', 'C'], ['C', 'B', 'A']):
            out.append(dict(prop='C06', family='c06.mutex.gather_in_one_handler', id=f'c06/gather-{b1}{b2}-p{int(par_a)}-{cshape}-o{"".join(o)}', cfg=cfg, params=dict(first_b='gather', par_a=par_a, par_b=False),
                            scn=dict(buses={'A': dict(parallel=par_a), 'B': {}, 'C': {}}, order=o, handlers=hs, main=main, actors=[], forwards=[], settle=3.0)))
    # two handlers of one event on a parallel_handlers bus share their function name (closures from one factory, same-named methods of two instances - the
    # library only warns): the one registered first is still busy when the one registered last has finished; nothing else may start meanwhile
    for slow_first, kinds, nb in itertools.product((True, False), (('async', 'async'), ('amethod', 'amethod'), ('async', 'amethod')), (1, 2)):
        p_slow, p_fast = [('pause',), ('pause',), ('ret', 1)], [('ret', 2)]
        hs = [dict(bus='A', pat='P', name='h1', fname='handle', prog=p_slow if slow_first else p_fast, kind=kinds[0]),
              dict(bus='A', pat='P', name='h2', fname='handle', prog=p_fast if slow_first else p_slow, kind=kinds[1]),
              dict(bus='A', pat='X', name='hxA', prog=[('pause',)])]
        names = ['A', 'B'] if nb == 2 else ['A']
        if nb == 2:
            hs.append(dict(bus='B', pat='X', name='hxB', prog=[('pause',)]))
        main = [('disp', 'A', 'P', 'ff'), ('disp', names[-1], 'X', 'ff'), ('disp', 'A', 'X2', 'ff')]
        for o in ([names] if nb == 1 else [names, names[::-1]]):
            out.append(dict(prop='C06', family='c06.mutex.same_named_parallel_handlers', id=f'c06/samename-s{int(slow_first)}-{kinds[0]}{kinds[1]}-n{nb}-o{"".join(o)}', cfg=cfg, params=dict(first_b='samename', par_a=True, par_b=False),
                            scn=dict(buses={b: dict(parallel=(b == 'A')) for b in names}, order=o, handlers=hs, main=main, actors=[], forwards=[], settle=3.0)))
    # a handler of A pumps worker bus B by hand with the public EventBus.step() (a re-entrant use of the global lock), then goes on working while an event waits on
    # bus C: leaving the nested step must not hand the lock to C
    for nsteps, hb, o in itertools.product((1, 2), ('ret', 'pause'), (['A', 'B', 'C'], ['C', 'B', 'A'])):
        hs = [dict(bus='A', pat='P', name='hp', prog=[('disp', 'C', 'X2', 'ff'), ('disp', 'B', 'C', 'ff')] + [('step', 'B')] * nsteps + [('pause',), ('pause',)]),
              dict(bus='B', pat='C', name='hcB', prog=[('ret', 1)] if hb == 'ret' else [('pause',), ('ret', 1)]), dict(bus='C', pat='X', name='hxC', prog=[('pause',)]),
              dict(bus='A', pat='X', name='hxA', prog=[('pause',)])]
        main = [('disp', 'C', 'X', 'await'), ('disp', 'A', 'P', 'ff'), ('disp', 'A', 'X3', 'ff')]
        out.append(dict(prop='C06', family='c06.mutex.handler_pumps_another_bus', id=f'c06/pump-n{nsteps}-{hb}-o{"".join(o)}', cfg=dict(cfg, window=0.3), params=dict(first_b='pump', par_a=False, par_b=False),
                        scn=dict(buses={'A': {}, 'B': {}, 'C': {}}, order=o, handlers=hs, main=main, actors=[], forwards=[], settle=3.0)))
    # the grammar-generated corpus shared by the bus properties (vsched/gen.py), judged by this property's oracle
    from .. import gen
    out += gen.family('C06', tier, params=dict(first_b='generated', par_a=None, par_b=None), timeouts=(None,))
    return out


def trigger(spec, res):
    buses = {r[3] for r in res['log'] if r[2] == 'enter'}
    return len(buses) >= 2 and any(r[2] == 'resumed' for r in res['log'])


def oracle(spec, res):
    tr = Trace(res)
    out = []
    if res['verdict'][0] != 'done':
        return out
    par = {b for b, c in spec['scn']['buses'].items() if c.get('parallel')}
    ivs = tr.intervals()
    for en in tr.enters:
        s, b2, h2, e2 = en[0], en[2], en[3], en[4]
        for (a, b, b1, h1, e1, who1) in ivs:
            if not (a < s and (b is None or s < b)):
                continue
            if (b1, e1) == (b2, e2) and b1 in par:
                continue  # handlers of the same event on the same parallel bus
            if tr.awaiting(who1, s) is not None:
                continue
            if b1 in par:
                # a sibling handler of (b1, e1) suspended in an await
                sib = [iv for iv in ivs if iv[2] == b1 and iv[4] == e1 and iv[5] != who1 and iv[0] < s and (iv[1] is None or s < iv[1])]
                if any(tr.awaiting(iv[5], s) is not None for iv in sib):
                    continue
            out.append(V('overlap', f'{b2}.{h2}({e2}) entered at seq {s} while {b1}.{h1}({e1}) was running and not awaiting',
                         first_use=spec['params']['first_b'], parallel=bool(b1 in par or b2 in par), same_bus=b1 == b2,
                         sibling_inline=_sibling_inline(tr, par, e1, e2, s)))
            if len(out) >= 4:
                return out
    return out


def _sibling_inline(tr, par, e1, e2, s):
    """True iff e1 and e2 are (descendants of) children dispatched by two DIFFERENT handlers of the SAME event on a parallel_handlers bus,
    and both of those handlers are suspended awaiting at seq s (each is processing its awaited child inline).  This is known finding F17."""
    def top(e):
        chain = [e]
        while chain[-1] in tr.child_of:
            chain.append(tr.child_of[chain[-1]])
        return chain
    c1, c2 = top(e1), top(e2)
    for i, x in enumerate(c1[:-1]):
        for j, y in enumerate(c2[:-1]):
            if c1[i + 1] == c2[j + 1] and x != y:
                w1, w2 = tr.disp_by.get(x), tr.disp_by.get(y)
                if w1 and w2 and w1 != w2 and w1 in tr.who_info and w2 in tr.who_info:
                    if tr.who_info[w1][0] in par and tr.who_info[w1][0] == tr.who_info[w2][0]:
                        if tr.awaiting(w1, s) is not None and tr.awaiting(w2, s) is not None:
                            return True
    return False
