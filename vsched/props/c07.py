"""C07  Forwarding reaches each bus once, never loops, and records the path.  (DESIGN.md 4, C07)"""
from __future__ import annotations

import itertools

from ..oracles import Trace, V
from ..world import make  # noqa: F401

LEVEL = 'model_checking'
DISTINCT_BY_SCENARIO = True  # the forwarding graph is part of the case
RULE = ('ALL directed forwarding graphs with self-loops on 3 buses (512) x entry bus (3) [thorough: all 4096 loop-free-diagonal graphs on 4 buses, entry A], one pausing probe '
        'handler per bus; forwarding handlers registered after or before the probes; plus families with a second concurrent event from another entry and with the event '
        'dispatched from inside a handler; two routes to a bus whose first forward is rejected at its backlog limit; all schedules <= L deviations. non-trivial = the event reached at least two buses or a forwarding handler was skipped; '
        'distinct = distinct (graph, entry, recorder trace)')
ASSUMPTIONS = ['reachability is computed by the harness from the scenario graph; enqueue order from the observed public dispatch calls']


def _edges(mask, names):
    n = len(names)
    return [(names[i], names[j]) for i in range(n) for j in range(n) if mask >> (i * n + j) & 1]


def _reach(entry, edges):
    seen, todo = {entry}, [entry]
    while todo:
        x = todo.pop()
        for a, b in edges:
            if a == x and b not in seen:
                seen.add(b)
                todo.append(b)
    return seen


def families(tier):
    deep = tier == 'thorough'
    out = []
    cfg = dict(bound=2 if deep else 1, cap=3000 if deep else 400, window=0.25, max_targets=1)
    names = ['A', 'B', 'C']

    def probes(ns):
        return [dict(bus=b, pat='P', name='probe' + b, prog=[('pause',), ('ret', b)]) for b in ns] + \
               [dict(bus=b, pat='Q', name='hq' + b, prog=[('ret', 0)]) for b in ns]

    for mask in range(512):
        edges = _edges(mask, names)
        for entry in names:
            fwd_first = bool(mask & 1) ^ (entry == 'B')  # alternate registration order deterministically
            out.append(dict(prop='C07', family='c07.all_graphs_3', id=f'c07/g{mask:03d}-{entry}', cfg=cfg, params=dict(edges=edges, entry=entry),
                            scn=dict(buses={b: {} for b in names}, order=names, handlers=probes(names), main=[('disp', entry, 'P', 'ff')], actors=[],
                                     forwards=edges, fwd_first=fwd_first, settle=3.0)))
    # second concurrent event from another entry / event dispatched from inside a handler, on a selection of shapes
    shapes = {'chain': [('A', 'B'), ('B', 'C')], 'cycle': [('A', 'B'), ('B', 'C'), ('C', 'A')], 'diamond': [('A', 'B'), ('A', 'C'), ('B', 'C')],
              'double': [('A', 'B'), ('A', 'B'), ('B', 'A')], 'double_chain': [('A', 'B'), ('A', 'B'), ('B', 'C')], 'full': [(a, b) for a in names for b in names], 'fan_in': [('A', 'C'), ('B', 'C'), ('C', 'C')]}
    cfg2 = dict(bound=3 if deep else 2, cap=20000 if deep else 1500, window=0.25, max_targets=1)
    for sname, edges in shapes.items():
        for entry, entry2, inside, par in itertools.product(names, names, (False, True), (False, True)):
            if entry2 == entry and not inside:
                continue
            if par and sname not in ('cycle', 'diamond'):
                continue
            hs = probes(names)
            if inside:
                hs.append(dict(bus=entry2, pat='X', name='hx', prog=[('disp', entry, 'P', 'ff'), ('pause',)]))
                main = [('disp', entry2, 'X', 'ff')]
            else:
                main = [('disp', entry, 'P', 'ff'), ('disp', entry2, 'P2', 'ff')]
            for order in (names, names[::-1]):
                out.append(dict(prop='C07', family='c07.concurrent', id=f'c07/{sname}-{entry}{entry2}-i{int(inside)}-p{int(par)}-o{"".join(order)}', cfg=cfg2,
                                params=dict(edges=edges, entry=entry),
                                scn=dict(buses={b: dict(parallel=par) for b in names}, order=order, handlers=hs, main=main, actors=[], forwards=edges, settle=3.0)))
    # several forwards per bus in interleaved registration order (B, C, B), and forwarders written as plain handler functions
    # (`def fwd(e): return other.dispatch(e)`), which the loop filter does not recognise as forwarding handlers
    multi = {'bcb': [('A', 'B'), ('A', 'C'), ('A', 'B')], 'bcb_back': [('A', 'B'), ('A', 'C'), ('A', 'B'), ('C', 'A')], 'cbc_chain': [('A', 'C'), ('A', 'B'), ('A', 'C'), ('B', 'C')],
             'both_ways': [('A', 'B'), ('B', 'A'), ('A', 'C'), ('B', 'C'), ('A', 'B')]}
    for sname, edges in multi.items():
        for entry, custom, fwd_first in itertools.product(names, ('none', 'all', 'mixed'), (False, True)):
            hs = probes(names)
            real, k = [], 0
            for (a, b) in edges:
                k += 1
                if custom == 'all' or (custom == 'mixed' and k % 2 == 0):
                    hs.append(dict(bus=a, pat='*', name=f'fwd{k}_{a}{b}', prog=[('redisp', b, 'self')], kind='sync'))
                else:
                    real.append((a, b))
            for order in (names, names[::-1]):
                out.append(dict(prop='C07', family='c07.multi_forward', id=f'c07/{sname}-{entry}-c{custom}-f{int(fwd_first)}-o{"".join(order)}', cfg=cfg2,
                                params=dict(edges=edges, entry=entry),
                                scn=dict(buses={b: {} for b in names}, order=order, handlers=hs, main=[('disp', entry, 'P', 'ff')], actors=[], forwards=real,
                                         fwd_first=fwd_first, settle=3.0)))
    # bus names that contain one another ('Bus' / 'BusX' / 'XBus'): path membership must be by name, not by substring
    nn = ['Bus', 'BusX', 'XBus']
    for sname, edges0 in shapes.items():
        edges = [(nn[names.index(a)], nn[names.index(b)]) for a, b in edges0]
        for entry, fwd_first in itertools.product(nn, (False, True)):
            hs = [dict(bus=b, pat='P', name='probe' + b, prog=[('pause',), ('ret', b)]) for b in nn]
            for order in (nn, nn[::-1]):
                out.append(dict(prop='C07', family='c07.name_containment', id=f'c07/names-{sname}-{entry}-f{int(fwd_first)}-o{"".join(x[0] + x[-1] for x in order)}', cfg=cfg2,
                                params=dict(edges=edges, entry=entry),
                                scn=dict(buses={b: {} for b in nn}, order=order, handlers=hs, main=[('disp', entry, 'P', 'ff')], actors=[], forwards=edges, fwd_first=fwd_first, settle=3.0)))
    # a chain of nested dispatches 4-5 levels deep (a different event type and handler at every level, nothing recurses), every level
    # passing through a bus that forwards to the next one: forwarding must work at any nesting depth
    for mode, topo, depth in itertools.product(('ff', 'await'), ('AB', 'ABC', 'AB_BA'), (4, 5)):
        edges = {'AB': [('A', 'B')], 'ABC': [('A', 'B'), ('B', 'C')], 'AB_BA': [('A', 'B'), ('B', 'A')]}[topo]
        ns = names if topo == 'ABC' else ['A', 'B']
        chain = ['P', 'C', 'G', 'Q', 'Z'][:depth]
        hs = []
        for i, t in enumerate(chain):
            prog = ([('disp', 'A', chain[i + 1], mode)] if i + 1 < len(chain) else []) + [('ret', t)]
            hs.append(dict(bus='A', pat=t, name='h' + t, prog=prog))
            for b in ns[1:]:
                hs.append(dict(bus=b, pat=t, name=f'probe{t}{b}', prog=[('ret', b)]))
        for order in (ns, ns[::-1]):
            out.append(dict(prop='C07', family='c07.nested_chain', id=f'c07/nest-{mode}-{topo}-d{depth}-o{"".join(order)}', cfg=cfg2, params=dict(edges=edges, entry='A', chain=chain),
                            scn=dict(buses={b: {} for b in ns}, order=order, handlers=hs, main=[('disp', 'A', 'P', 'ff')], actors=[], forwards=edges, settle=3.0)))
    # two routes to C (A->C direct, A->B->C).  A handler of the event on A first fills C up to its backlog limit, so the direct forward is REJECTED
    # (an error result of that forwarding handler); a later handler on A waits for the backlog (processed inline), then A forwards to B and B to C:
    # C is reachable and must still process the event exactly once, and event_path must list A, B, C in order of arrival
    for nfill, drain_all, order in itertools.product((60, 50), (True, False), (names, names[::-1])):
        edges = [('A', 'C'), ('A', 'B'), ('B', 'C')]
        # (wildcard handlers run after the type-specific ones, in registration order: the two helpers are registered with '*' like the forwards)
        hs = probes(names) + [dict(bus='A', pat='*', name='hfill', prog=[('burst', 'C', 'X', nfill)], kind='sync'),
                              dict(bus='A', pat='*', name='hdrain', prog=[('await_all', 'X')] if drain_all else [('await_all', 'X', 2)]),
                              dict(bus='C', pat='X', name='hxC', prog=[('ret', 0)], kind='sync')]
        ix = {h['name']: i for i, h in enumerate(hs)}
        reg = [('h', ix['hfill']), ('f', 'A', 'C'), ('h', ix['hdrain']), ('f', 'A', 'B'), ('h', ix['probeA']), ('h', ix['hqA']),
               ('h', ix['probeB']), ('h', ix['hqB']), ('f', 'B', 'C'), ('h', ix['probeC']), ('h', ix['hqC']), ('h', ix['hxC'])]
        out.append(dict(prop='C07', family='c07.second_route_after_rejection', id=f'c07/rej2nd-n{nfill}-d{int(drain_all)}-o{"".join(order)}', cfg=dict(cfg2, max_points=400),
                        params=dict(edges=edges, entry='A', rejected_first=True, drain_all=drain_all),
                        scn=dict(buses={b: {} for b in names}, order=order, handlers=hs, reg=reg, main=[('disp', 'A', 'P', 'ff')], actors=[], forwards=edges, settle=3.0, no_watch=True)))
    # one bus is handed the event twice (two wildcard forwards A -> B) and forwards it down a chain B -> C -> D; C has a slow wildcard handler registered
    # AFTER its forward, so B (with its second copy) and D both get their turn while C is still busy
    n4 = ['A', 'B', 'C', 'D']
    for slow_on, order in itertools.product('BC', (n4, n4[::-1])):
        edges = [('A', 'B'), ('A', 'B'), ('B', 'C'), ('C', 'D')]
        hs = probes(n4) + [dict(bus=slow_on, pat='*', name='haudit', prog=[('pause',), ('ret', 'audited')])]
        ix = {h['name']: i for i, h in enumerate(hs)}
        reg = [('h', ix['probe' + b]) for b in n4] + [('h', ix['hq' + b]) for b in n4] + [('f', 'A', 'B'), ('f', 'A', 'B'), ('f', 'B', 'C'), ('f', 'C', 'D'), ('h', ix['haudit'])]
        out.append(dict(prop='C07', family='c07.double_edge_then_chain', id=f'c07/dbl-chain-slow{slow_on}-o{"".join(order)}', cfg=cfg2, params=dict(edges=edges, entry='A'),
                        scn=dict(buses={b: {} for b in n4}, order=order, handlers=hs, reg=reg, main=[('disp', 'A', 'P', 'ff')], actors=[], forwards=edges, settle=3.0)))
    # a typed handler of the entry bus overruns the event's time-out (0.5 s) before the bus's wildcard forwards - which always come after the typed handlers - have
    # run: the time-out ends that handler, the forwards still happen
    for sname, edges in shapes.items():
        for entry, first in itertools.product(names, (True, False)):
            slow = dict(bus=entry, pat='P', name='hslow', prog=[('pause',), ('pause',), ('ret', 0)])
            hs = ([slow] + probes(names)) if first else (probes(names) + [slow])
            for order in (names, names[::-1]):
                out.append(dict(prop='C07', family='c07.typed_handler_times_out_before_the_forwards', id=f'c07/tmo-{sname}-{entry}-f{int(first)}-o{"".join(order)}', cfg=dict(cfg2, window=0.8, max_targets=2),
                                params=dict(edges=edges, entry=entry, tmo=True),
                                scn=dict(buses={b: {} for b in names}, order=order, handlers=hs, main=[('disp', entry, 'P', 'ff', {'timeout': 0.5})], actors=[], forwards=edges, settle=3.0)))
    # cycles and back-edges over buses with a tiny history, and a burst of events into the entry bus: an event that has been evicted from the history of a bus it
    # already visited is still not accepted by that bus again (loop prevention goes by the path, which is permanent, not by the history, which is not)
    for sname in ('cycle', 'full', 'double'):
        if sname == 'double':
            continue
        edges = shapes[sname]
        for entry, hist, nburst in itertools.product(names, (1, 2), (3, 5)):
            hs = [dict(bus=b, pat='P', name='probe' + b, prog=[('ret', b)]) for b in names]
            out.append(dict(prop='C07', family='c07.cycle_with_tiny_history', id=f'c07/tinyhist-{sname}-{entry}-h{hist}-n{nburst}', cfg=cfg2, params=dict(edges=edges, entry=entry, once_per_bus=True),
                            scn=dict(buses={b: dict(hist=hist) for b in names}, order=names, handlers=hs, main=[('burst', entry, 'P', nburst), ('pause',)], actors=[], forwards=edges, settle=3.0, no_watch=True)))
    # three buses all REQUESTED under one name (legitimate: the library warns and renames the newcomers): they are still three different buses
    for sname, edges in shapes.items():
        for entry in names:
            for order in (names, names[::-1]):
                out.append(dict(prop='C07', family='c07.same_requested_name', id=f'c07/samename-{sname}-{entry}-o{"".join(order)}', cfg=cfg2, params=dict(edges=edges, entry=entry),
                                scn=dict(buses={b: dict(req_name='Worker') for b in names}, order=order, handlers=probes(names), main=[('disp', entry, 'P', 'ff')], actors=[],
                                         forwards=edges, settle=3.0)))
    if deep:
        n4 = ['A', 'B', 'C', 'D']
        offdiag = [(i, j) for i in range(4) for j in range(4) if i != j]
        for mask in range(4096):
            edges = [(n4[i], n4[j]) for k, (i, j) in enumerate(offdiag) if mask >> k & 1]
            out.append(dict(prop='C07', family='c07.all_graphs_4', id=f'c07/h{mask:04d}-A', cfg=dict(cfg, bound=1, cap=600), params=dict(edges=edges, entry='A'),
                            scn=dict(buses={b: {} for b in n4}, order=n4, handlers=probes(n4), main=[('disp', 'A', 'P', 'ff')], actors=[], forwards=edges, settle=3.0)))
    return out


def trigger(spec, res):
    fe = res['final']['events']
    return any(len(e['path']) >= 2 for e in fe.values()) or len(spec['params']['edges']) > 0


def oracle(spec, res):
    tr = Trace(res)
    out = []
    if res['verdict'][0] != 'done':
        out.append(V('forwarding_does_not_terminate', str(res['verdict'])))
        return out
    edges = spec['params']['edges']
    fin = res['final']['events']
    if 'chain' in spec['params']:
        reach = _reach('A', edges)
        for ev, fe in fin.items():
            seen = {en[2] for en in tr.enters if en[4] == ev}
            if seen != reach or set(fe['path']) != reach or len(fe['path']) != len(set(fe['path'])):
                out.append(V('nested_event_not_forwarded_to_every_reachable_bus', f'{ev}: handled on {sorted(seen)}, path {fe["path"]}, reachable {sorted(reach)}; results {[(r["bus"], r["h"], r["status"], r["errtype"]) for r in fe["results"]]}'))
            if fe['status'] != 'completed' or not fe['sig']:
                out.append(V('event_not_complete_at_quiescence', f'{ev}: {fe["status"]} sig={fe["sig"]}'))
        if len(fin) != len(spec['params']['chain']):
            out.append(V('nested_chain_incomplete', f'events {sorted(fin)} expected chain {spec["params"]["chain"]}'))
        return out[:6]
    for ev, fe in fin.items():
        if not ev.startswith('P'):
            continue
        fd = tr.first_disp.get(ev)
        if fd is None or fd[5] != 'ok':
            continue
        entry = fd[3]
        reach = _reach(entry, edges)
        entered = {}
        for en in tr.enters:
            if en[4] == ev and en[3].startswith('probe'):
                entered[en[2]] = entered.get(en[2], 0) + 1
                if len(en) > 7 and en[7] is not True:
                    out.append(V('different_object_on_forwarded_bus', f'{en}'))
        if set(entered) != reach:
            out.append(V('processed_by_wrong_bus_set', f'{ev} entry {entry} edges {edges}: processed on {sorted(entered)} reachable {sorted(reach)}',
                         missing=bool(reach - set(entered)), extra=bool(set(entered) - reach)))
        if spec['params'].get('once_per_bus'):
            acc = {}
            for d in tr.dispatches:
                if d[4] == ev and d[5] == 'ok':
                    acc[d[3]] = acc.get(d[3], 0) + 1
            again = {b: n for b, n in acc.items() if n > 1}
            if again:
                out.append(V('accepted_again_by_a_bus_already_in_its_path', f'{ev}: accepted {again} times; path {fe["path"]}'))
        dup = {b: n for b, n in entered.items() if n != 1}
        if dup:
            out.append(V('processed_more_than_once_on_a_bus', f'{ev}: {dup}'))
        path = fe['path']
        if len(set(path)) != len(path):
            out.append(V('event_path_has_repeats', f'{ev}: {path}'))
        if set(path) != reach or (path and path[0] != entry):
            out.append(V('event_path_not_the_reachable_set', f'{ev}: path {path} entry {entry} reachable {sorted(reach)}'))
        arrival = []
        for d in tr.dispatches:
            if d[4] == ev and d[5] == 'ok' and d[3] not in arrival:
                arrival.append(d[3])
        if path != arrival:
            out.append(V('event_path_not_in_arrival_order', f'{ev}: path {path} arrival {arrival}'))
        per = {}
        for r in fe['results']:
            if r['status'] not in ('completed', 'error'):
                out.append(V('result_not_terminal', f'{ev}: {r}'))
            if r['h'].startswith('probe'):
                per[r['bus']] = per.get(r['bus'], 0) + 1
                if spec['params'].get('tmo') and r['status'] == 'error' and r['errtype'] in ('TimeoutError', 'CancelledError'):
                    continue  # (the event's time-out applies to every handler of it, the probes included)
                if r['status'] != 'completed' or r['value'] != repr(r['bus']):
                    out.append(V('probe_result_wrong', f'{ev}: {r}'))
        if per != {b: 1 for b in reach}:
            out.append(V('results_do_not_accumulate_per_bus', f'{ev}: probe results per bus {per}, reachable {sorted(reach)}'))
        if fe['status'] != 'completed' or not fe['sig']:
            out.append(V('event_not_complete_at_quiescence', f'{ev}: {fe["status"]} sig={fe["sig"]}'))
        # 'processed by every reachable bus' is part of what the event's completion stands for: when it is first seen complete, no reachable bus is still to come
        st = tr.states.get(ev)
        if st:
            fc = next((seq for seq, s_ in zip(*st) if s_[1] is True), None)  # the completion signal is what an await on the event waits for
            if fc is not None:
                later = sorted({en[2] for en in tr.enters if en[4] == ev and en[3].startswith('probe') and en[0] > fc})
                if later:
                    out.append(V('complete_before_every_reachable_bus_processed_it', f'{ev} seen complete at seq {fc}; probes of {later} started after that'))
    return out[:6]
