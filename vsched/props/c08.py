"""C08  Completion is stable: a completed event never changes again.  (DESIGN.md 4, C08)"""
from __future__ import annotations

import itertools

from ..oracles import Trace, V
from ..world import make  # noqa: F401

LEVEL = 'model_checking'
RULE = ('forwarding graphs on 2-3 buses (chain, diamond, cycle, fan-out, fan-in) with pausing handlers on downstream buses, the awaiter being main or a handler, '
        'forwarded children of awaited parents, plus non-forwarding trees; the event state S(e) = (status, completion signal, per-result (bus, handler, status, value, error)) '
        'is sampled at every recorder point; all schedules <= L deviations; two bus orders. non-trivial = an event was observed complete while some handler anywhere was still '
        'to run or suspended; distinct = distinct recorder traces')
ASSUMPTIONS = ['"observed complete" = an await on the event returned, or status==completed with the completion signal set, at a recorder point']

SHAPES = {
    'chain2': (['A', 'B'], [('A', 'B')]),
    'chain3': (['A', 'B', 'C'], [('A', 'B'), ('B', 'C')]),
    'fan_out': (['A', 'B', 'C'], [('A', 'B'), ('A', 'C')]),
    'diamond': (['A', 'B', 'C'], [('A', 'B'), ('A', 'C'), ('B', 'C')]),
    'cycle': (['A', 'B', 'C'], [('A', 'B'), ('B', 'C'), ('C', 'A')]),
    'none2': (['A', 'B'], []),
}


def families(tier):
    deep = tier == 'thorough'
    out = []
    cfg = dict(bound=3 if deep else 2, cap=40000 if deep else 2000, window=0.25, max_targets=2)
    for sname, (names, edges) in SHAPES.items():
        for awaiter, down, child, fwd_first in itertools.product(['main', 'handler', 'main_late'], ['pause', 'ret', 'child_ff'], ['none', 'await', 'ff'], (False, True)):
            if sname == 'none2' and (fwd_first or down == 'child_ff'):
                continue
            if not deep and fwd_first and child == 'ff':
                continue
            hs = []
            for b in names:
                prog = {'pause': [('pause',), ('ret', b)], 'ret': [('ret', b)], 'child_ff': [('disp', b, 'G', 'ff'), ('pause',)]}[down if b != 'A' else 'ret']
                hs.append(dict(bus=b, pat='E', name='he' + b, prog=prog))
                hs.append(dict(bus=b, pat='G', name='hg' + b, prog=[('pause',)]))
            # E is the forwarded event (class P in the world is reused under key 'P'); use P as E
            for h in hs:
                if h['pat'] == 'E':
                    h['pat'] = 'P'
            if child != 'none':
                # a handler of the forwarded event on the entry bus dispatches a child that is itself forwarded
                hs.append(dict(bus='A', pat='P', name='hkid', prog=[('disp', 'A', 'C', child)]))
                for b in names:
                    hs.append(dict(bus=b, pat='C', name='hc' + b, prog=[('pause',)]))
            if awaiter == 'main':
                main = [('disp', 'A', 'P', 'await'), ('pause',)]
            elif awaiter == 'main_late':
                main = [('disp', 'A', 'P', 'late'), ('pause',), ('await', 'P'), ('pause',)]
            else:
                hs.append(dict(bus='A', pat='X', name='hx', prog=[('disp', 'A', 'P', 'await'), ('pause',)]))
                main = [('disp', 'A', 'X', 'await')]
            for order in (names, names[::-1]):
                out.append(dict(prop='C08', family='c08.' + ('forwarded' if edges else 'plain'), id=f'c08/{sname}-{awaiter}-{down}-{child}-f{int(fwd_first)}-o{"".join(order)}',
                                cfg=cfg, params=dict(shape=sname, awaiter=awaiter),
                                scn=dict(buses={b: {} for b in names}, order=order, handlers=hs, main=main, actors=[], forwards=edges, fwd_first=fwd_first, settle=3.0)))
    # a parent handler that times out AFTER a child of it was already observed complete (with ok / error / cancelled results)
    for cshape, tp, tc, how, sib in itertools.product(['raise', 'ret', 'pause_raise', 'two_handlers'], (0.5, 1.0), (None, 0.5), ['await', 'ff_then_wait'], (False, True)):
        if not deep and tc is not None and cshape in ('ret',):
            continue
        copt = {} if tc is None else {'timeout': tc}
        hc = {'raise': [('raise', 'ValueError')], 'ret': [('ret', 1)], 'pause_raise': [('pause',), ('raise', 'Custom')], 'two_handlers': [('raise', 'KeyError')]}[cshape]
        hp = ([('disp', 'A', 'C', 'await', copt)] if how == 'await' else [('disp', 'A', 'C', 'ff', copt), ('pause',)]) + [('pause',), ('pause',)]
        hs = [dict(bus='A', pat='P', name='hp', prog=hp), dict(bus='A', pat='C', name='hc', prog=hc), dict(bus='A', pat='X', name='hx', prog=[('ret', 0)])]
        if cshape == 'two_handlers':
            hs.append(dict(bus='A', pat='C', name='hc2', prog=[('pause',), ('ret', 2)]))
        if sib:
            hs.append(dict(bus='A', pat='P', name='hp2', prog=[('ret', 3)]))
        main = [('disp', 'A', 'P', 'ff', {'timeout': tp}), ('disp', 'A', 'X', 'ff'), ('pause',)]
        out.append(dict(prop='C08', family='c08.timeout_after_completion', id=f'c08/tmo-{cshape}-p{tp}-c{tc}-{how}-s{int(sib)}', cfg=dict(cfg, window=1.2, max_targets=3),
                        params=dict(shape='timeout', awaiter='handler'),
                        scn=dict(buses={'A': {}}, order=['A'], handlers=hs, main=main, actors=[], forwards=[], settle=3.0)))
    # the same event object dispatched by hand to two or three buses (no forwarding handler), some of which have no handler for it
    for nb, quiet, who, par in itertools.product((2, 3), ('none', 'first', 'first_two'), ('main', 'handler'), (False, True)):
        names = ['A', 'B', 'C'][:nb]
        if quiet == 'first_two' and nb == 2:
            continue
        nq = {'none': 0, 'first': 1, 'first_two': 2}[quiet]
        hs = []
        for i, b in enumerate(names):
            if i >= nq:
                hs.append(dict(bus=b, pat='P', name='hp' + b, prog=[('pause',), ('ret', b)]))
            hs.append(dict(bus=b, pat='Y', name='hy' + b, prog=[('ret', 0)]))  # a handler for another type: the bus is not handler-less
        fan = [('disp', names[0], 'P', 'late')] + [('redisp', b, 'P') for b in names[1:]]
        if who == 'main':
            main = fan + [('await', 'P'), ('pause',)]
        else:
            hs.append(dict(bus='A', pat='X', name='hx', prog=fan + [('await', 'P'), ('pause',)]))
            main = [('disp', 'A', 'X', 'await')]
        for order in (names, names[::-1]):
            out.append(dict(prop='C08', family='c08.multi_dispatch', id=f'c08/multi-{nb}-{quiet}-{who}-p{int(par)}-o{"".join(order)}', cfg=cfg, params=dict(shape='multi', awaiter=who),
                            scn=dict(buses={b: dict(parallel=par) for b in names}, order=order, handlers=hs, main=main, actors=[], forwards=[], settle=3.0)))
    # an event comes back to a bus that is already in its path (plain-function 'back bridge' forwarder, or re-dispatch by hand) while another bus still has it queued
    for back, slowB, fwd_first, redisp in itertools.product(('handler', 'none'), (False, True), (False, True), ('none', 'main_pending', 'main_after_pause')):
        if back == 'none' and redisp == 'none':
            continue
        names = ['A', 'B', 'C']
        hs = [dict(bus='A', pat='P', name='hpA', prog=[('ret', 'A')])]
        if back == 'handler':
            hs.append(dict(bus='B', pat='P', name='backBA', prog=[('redisp', 'A', 'self')], kind='sync'))
        hs.append(dict(bus='B', pat='P', name='hpB', prog=[('pause',), ('ret', 'B')] if slowB else [('ret', 'B')]))
        hs.append(dict(bus='C', pat='P', name='hpC', prog=[('pause',), ('ret', 'C')]))
        hs.append(dict(bus='C', pat='X', name='hxC', prog=[('pause',), ('pause',)]))  # unrelated work that outlasts P
        main = [('disp', 'C', 'X', 'ff'), ('disp', 'A', 'P', 'late')]
        if redisp == 'main_pending':
            main.append(('redisp', 'A', 'P'))
        elif redisp == 'main_after_pause':
            main += [('pause',), ('redisp', 'A', 'P'), ('redisp', 'B', 'P')]
        main += [('await', 'P'), ('pause',)]
        for order in (names, names[::-1]):
            out.append(dict(prop='C08', family='c08.back_to_a_bus_in_path', id=f'c08/back-{back}-s{int(slowB)}-f{int(fwd_first)}-{redisp}-o{"".join(order)}', cfg=cfg, params=dict(shape='back', awaiter='main'),
                            scn=dict(buses={b: {} for b in names}, order=order, handlers=hs, main=main, actors=[], forwards=[('A', 'B'), ('B', 'C')], fwd_first=fwd_first, settle=3.0)))
    # the awaited (and forwarded) child is an instance of a falsy event class (an empty batch): an await on it still returns only when it is complete everywhere
    for fwd, heB in itertools.product((True, False), ('pause', 'ret')):
        hs = [dict(bus='A', pat='P', name='hp', prog=[('disp', 'A', 'E', 'await'), ('pause',), ('ret', 1)]), dict(bus='A', pat='E', name='heA', prog=[('ret', 'a')]),
              dict(bus='B', pat='E', name='heB', prog=[('pause',), ('ret', 'b')] if heB == 'pause' else [('ret', 'b')]), dict(bus='A', pat='X', name='hx', prog=[('ret', 0)]),
              dict(bus='B', pat='P', name='hpB', prog=[('ret', 2)])]
        main = [('disp', 'A', 'P', 'ff'), ('disp', 'A', 'X', 'ff'), ('pause',)]
        for order in (['A', 'B'], ['B', 'A']):
            out.append(dict(prop='C08', family='c08.falsy_child_event', id=f'c08/falsy-f{int(fwd)}-{heB}-o{"".join(order)}', cfg=cfg, params=dict(shape='falsy', awaiter='handler'),
                            scn=dict(buses={'A': {}, 'B': {}}, order=order, handlers=hs, main=main, actors=[], forwards=[('A', 'B')] if fwd else [], settle=3.0)))
    # two sibling handlers on a parallel_handlers bus await the SAME child (one dispatched it, the other got hold of the object): the one that does not
    # get to process it inline must still not come back from its await before the child is complete
    for cb, k, chc in itertools.product('AB', (0, 1), ('pause', 'pause_pause')):
        names = ['A', 'B'] if cb == 'B' else ['A']
        hs = [dict(bus='A', pat='P', name='h1', prog=[('disp', cb, 'C', 'late')] + [('pause',)] * k + [('await', 'C'), ('ret', 1)]),
              dict(bus='A', pat='P', name='h2', prog=[('yield',), ('await_named', 'C<'), ('ret', 2)]),
              dict(bus=cb, pat='C', name='hc', prog=[('pause',)] * (2 if chc == 'pause_pause' else 1) + [('ret', 'c')]), dict(bus='A', pat='X', name='hx', prog=[('ret', 0)])]
        main = [('disp', 'A', 'P', 'ff'), ('disp', 'A', 'X', 'ff'), ('pause',)]
        for order in ([names] if len(names) == 1 else [names, names[::-1]]):
            out.append(dict(prop='C08', family='c08.same_child_awaited_by_siblings', id=f'c08/samechild-c{cb}-k{k}-{chc}-o{"".join(order)}', cfg=cfg, params=dict(shape='samechild', awaiter='handler'),
                            scn=dict(buses={b: dict(parallel=(b == 'A')) for b in names}, order=order, handlers=hs, main=main, actors=[], forwards=[], settle=3.0)))
    # parent handler times out while an awaited child with TWO concurrently running handlers (parallel_handlers bus) is processed inline
    for cb, tc in itertools.product('AB', (None, 1.0)):
        names = ['A', 'B'] if cb == 'B' else ['A']
        copt = {} if tc is None else {'timeout': tc}
        hs = [dict(bus='A', pat='P', name='hp', prog=[('disp', cb, 'C', 'await', copt)]), dict(bus=cb, pat='C', name='hc1', prog=[('pause',), ('ret', 1)]),
              dict(bus=cb, pat='C', name='hc2', prog=[('pause',), ('ret', 2)]), dict(bus='A', pat='X', name='hx', prog=[('ret', 0)])]
        main = [('disp', 'A', 'P', 'ff', {'timeout': 0.5}), ('disp', 'A', 'X', 'ff'), ('pause',)]
        for order in ([names] if len(names) == 1 else [names, names[::-1]]):
            out.append(dict(prop='C08', family='c08.timeout_parallel_child', id=f'c08/tmo-par-c{cb}-c{tc}-o{"".join(order)}', cfg=dict(cfg, window=1.2, max_targets=3),
                            params=dict(shape='timeout_parallel', awaiter='handler'),
                            scn=dict(buses={b: dict(parallel=(b == cb)) for b in names}, order=order, handlers=hs, main=main, actors=[], forwards=[], settle=3.0)))
    # the grammar-generated corpus shared by the bus properties (vsched/gen.py), judged by this property's oracle
    from .. import gen
    out += gen.family('C08', tier, params=dict(shape='gen', awaiter='handler'), timeouts=(None, 0.5))
    return out


def _first_complete(tr, ev):
    """first recorder point at which ev was observed complete"""
    best = None
    s = tr.states.get(ev)
    if s:
        for seq, st in zip(*s):
            if st[0] == 'completed' and st[1] is True:
                best = seq
                break
    for a in tr.awaits:
        if a['ev'] == ev and a['kind'] == 'await-end' and (best is None or a['end'] < best):
            best = a['end']
    return best


def trigger(spec, res):
    tr = Trace(res)
    for ev in tr.states:
        fc = _first_complete(tr, ev)
        if fc is not None and any(x[0] > fc for x in tr.exits):
            return True
    return False


def oracle(spec, res):
    tr = Trace(res)
    out = []
    if res['verdict'][0] != 'done':
        return out
    for ev, (seqs, sts) in tr.states.items():
        fc = _first_complete(tr, ev)
        if fc is None:
            continue
        at = tr.state_at(ev, fc)
        for seq, st in zip(seqs, sts):
            if seq > fc and st != at:
                kinds = []
                if st[0] != 'completed':
                    kinds.append('status_regressed')
                if len(st[2]) != len(at[2]):
                    kinds.append('result_added')
                elif st[2] != at[2]:
                    kinds.append('result_changed')
                if st[1] is not True:
                    kinds.append('signal_cleared')
                fwd = len(res['final']['events'].get(ev, {}).get('path', [])) > 1
                out.append(V('completed_event_changed', f'{ev} observed complete at seq {fc} as {at}; at seq {seq} it is {st} ({",".join(kinds)})',
                             forwarded=fwd, how=kinds[0] if kinds else 'other'))
                break
        # an external or in-handler await that returned must have seen every bus the event is forwarded to
    return out[:6]
