"""C09  Parent/child lineage and handler context are attributed correctly.  (DESIGN.md 4, C09)"""
from __future__ import annotations

import itertools

from ..oracles import Trace, V
from ..world import make  # noqa: F401

LEVEL = 'model_checking'
RULE = ('event trees on 1-3 buses (serial and parallel_handlers): several handlers of one event each dispatching children (fire-and-forget / awaited / late), nested awaits, '
        'forwarding of roots and of children (chain, fan-out), handlers registered before and after the forwarding handler, explicit event_parent_id, re-dispatch of the '
        "handler's own event, dispatches from main right after a handler returned and while handlers are suspended; all schedules <= L deviations; both bus orders. "
        'non-trivial = a handler dispatched a child or an event was forwarded; distinct = distinct recorder traces')
ASSUMPTIONS = ['lineage expected values come from harness dispatch records (who called dispatch), never from the library fields under test',
               'an explicitly-parented event dispatched inside a handler is still expected among that handler\'s children (literal reading of the statement; the unchanged code does so)']


def families(tier):
    deep = tier == 'thorough'
    out = []
    cfg = dict(bound=4 if deep else 2, cap=40000 if deep else 2000, window=0.6, max_targets=2)

    def add(fam, sid, buses, hs, main, forwards=(), actors=(), fwd_first=False, **params):
        names = list(buses)
        orders = [names] if len(names) == 1 else [names, names[::-1]]
        for o in orders:
            out.append(dict(prop='C09', family=fam, id=f'{fam}/{sid}-o{"".join(o)}', cfg=cfg, params=params,
                            scn=dict(buses=buses, order=list(o), handlers=hs, main=main, actors=list(actors), forwards=list(forwards), settle=3.0,
                                     fwd_first=fwd_first)))

    # family: two handlers of P each dispatching, nested, serial/parallel, 1-2 buses
    for par, m1, m2, b2, nest in itertools.product((False, True), ['ff', 'await', 'late'], ['ff', 'await'], 'AB', (False, True)):
        buses = {'A': dict(parallel=par)}
        if b2 == 'B':
            buses['B'] = {}
        h1 = [('disp', 'A', 'C1', m1)] + ([('pause',), ('await', 'C1')] if m1 == 'late' else [('pause',)])
        h2 = [('pause',), ('disp', b2, 'C2', m2)]
        hc = [('disp', 'A', 'G', 'await')] if nest else [('pause',)]
        hs = [dict(bus='A', pat='P', name='h1', prog=h1), dict(bus='A', pat='P', name='h2', prog=h2),
              dict(bus='A', pat='C', name='hcA', prog=hc), dict(bus='A', pat='G', name='hg', prog=[('pause',)]), dict(bus='A', pat='X', name='hx', prog=[('ret', 0)])]
        if b2 == 'B':
            hs.append(dict(bus='B', pat='C', name='hcB', prog=[('pause',)]))
        main = [('disp', 'A', 'P', 'ff'), ('pause',), ('disp', 'A', 'X', 'ff'), ('await', 'P'), ('disp', 'A', 'X2', 'ff')]
        add('c09.tree', f'p{int(par)}-{m1}-{m2}{b2}-n{int(nest)}', buses, hs, main, par=par)
        if par:
            # the same with an event that has no deadline at all (event_timeout=None is legitimate)
            main0 = [('disp', 'A', 'P', 'ff', {'timeout': None})] + main[1:]
            add('c09.tree', f'p1-{m1}-{m2}{b2}-n{int(nest)}-nodeadline', buses, hs, main0, par=par)
            # ... and with the first handler dispatching only after its sibling has started (and again after the sibling returned)
            hs1 = [dict(hs[0], prog=[('pause',)] + hs[0]['prog'] + [('pause',), ('disp', 'A', 'C3', 'ff')])] + hs[1:]
            add('c09.tree', f'p1-{m1}-{m2}{b2}-n{int(nest)}-nodeadline-late', buses, hs1, main0, par=par)
            add('c09.tree', f'p1-{m1}-{m2}{b2}-n{int(nest)}-late', buses, hs1, main, par=par)
    # family: forwarding of roots / children; handlers before and after the forward; explicit parents; self re-dispatch
    for topo, where, child, par in itertools.product(['AB', 'ABC', 'A>BC'], ['after', 'before'], ['none', 'ff', 'await'], (False, True)):
        names = ['A', 'B'] if topo == 'AB' else ['A', 'B', 'C']
        fw = {'AB': [('A', 'B')], 'ABC': [('A', 'B'), ('B', 'C')], 'A>BC': [('A', 'B'), ('A', 'C')]}[topo]
        buses = {n: dict(parallel=(par and n == 'A')) for n in names}
        hp = [] if child == 'none' else [('disp', 'A', 'C', child)]
        hs = []
        for n in names:
            hs.append(dict(bus=n, pat='P', name='hp' + n, prog=(hp if n == 'A' else []) + [('pause',)]))
            hs.append(dict(bus=n, pat='C', name='hc' + n, prog=[('ret', 1)]))
        # 'after': harness handlers registered before the forwarding handler run first; 'before' is modelled by a second handler that runs after a pause
        hs.append(dict(bus='A', pat='P', name='hlate', prog=[('pause',), ('disp', 'B', 'Y', 'ff')]))
        hs.append(dict(bus='B', pat='Y', name='hyB', prog=[('ret', 2)]))
        main = [('disp', 'A', 'P', 'await'), ('disp', 'B', 'Z', 'ff', {'parent': 'P'})]
        hs.append(dict(bus='B', pat='Z', name='hzB', prog=[('ret', 3)]))
        add('c09.forward', f'{topo.replace(">", "to")}-{where}-{child}-p{int(par)}', buses, hs, main, forwards=fw, fwd_first=(where == 'before'), topo=topo)
    # a handler keeps dispatching / reading event.event_bus AFTER an awaited child of it failed (its handler raised or timed out) or succeeded
    for fail, fwd, par, nxt, cbus in itertools.product(['raise', 'timeout', 'ok', 'raise_after_pause'], (False, True), (False, True), ['ff', 'await'], 'AB'):
        names = ['A', 'B'] if (fwd or cbus == 'B') else ['A']
        copt = {'timeout': 0.5} if fail == 'timeout' else {}
        hc = {'raise': [('raise', 'ValueError')], 'timeout': [('pause',), ('pause',)], 'ok': [('ret', 1)], 'raise_after_pause': [('pause',), ('raise', 'Custom')]}[fail]
        h1 = [('bus?',), ('try_await', cbus, 'C', 'await', copt), ('bus?',), ('disp', 'A', 'G', nxt), ('pause',), ('bus?',), ('disp', 'A', 'G2', 'ff')]
        hs = [dict(bus='A', pat='P', name='h1', prog=h1), dict(bus=cbus, pat='C', name='hc' + cbus, prog=hc if cbus == 'A' else [('bus?',)] + hc), dict(bus='A', pat='G', name='hgA', prog=[('bus?',), ('ret', 1)]),
              dict(bus='A', pat='P', name='h2', prog=[('bus?',), ('disp', 'A', 'Q', 'ff')]), dict(bus='A', pat='Q', name='hq', prog=[('ret', 0)])]
        if fwd:
            hs += [dict(bus='B', pat='P', name='hpB', prog=[('bus?',), ('pause',)])] + ([dict(bus='B', pat='C', name='hcB', prog=[('ret', 2)])] if cbus == 'A' else []) + [dict(bus='B', pat='G', name='hgB', prog=[('bus?',)]),
                   dict(bus='B', pat='Q', name='hqB', prog=[('ret', 0)])]
        main = [('disp', 'A', 'P', 'await'), ('disp', 'A', 'X', 'ff')]
        hs.append(dict(bus='A', pat='X', name='hx', prog=[('bus?',)]))
        buses = {n: dict(parallel=(par and n == 'A')) for n in names}
        add('c09.after_child_outcome', f'{fail}-f{int(fwd)}-p{int(par)}-{nxt}-c{cbus}', buses, hs, main, forwards=[('A', 'B')] if fwd else [], fwd_first=fwd, fail=fail)
    for ebus, mode in itertools.product('AB', ('ff', 'await')):
        # handler of C (child of P) dispatches leaves: auto-parented, explicit parent = its own event, explicit parent = the root
        hs = [dict(bus='A', pat='P', name='hp', prog=[('disp', 'A', 'C', 'await')]),
              dict(bus='A', pat='C', name='hc', prog=[('disp', ebus, 'G', mode), ('disp', ebus, 'Q', mode, {'parent': 'C<hp:P'}), ('disp', ebus, 'Z', mode, {'parent': 'P'}), ('pause',)]),
              dict(bus=ebus, pat='G', name='hg', prog=[('ret', 1)]), dict(bus=ebus, pat='Q', name='hq', prog=[('ret', 1)]), dict(bus=ebus, pat='Z', name='hz', prog=[('ret', 1)])]
        add('c09.explicit_parent', f'{ebus}-{mode}', {'A': {}, 'B': {}} if ebus == 'B' else {'A': {}}, hs, [('disp', 'A', 'P', 'await')])
    for shape in ['redisp_pause', 'redisp_child']:
        hp = [('redisp', 'A', 'self'), ('pause',)] if shape == 'redisp_pause' else [('redisp', 'A', 'self'), ('disp', 'A', 'C', 'await')]
        hs = [dict(bus='A', pat='P', name='hp', prog=hp), dict(bus='A', pat='C', name='hc', prog=[('disp', 'A', 'G', 'ff', {'parent': 'P'})]),
              dict(bus='A', pat='G', name='hg', prog=[('ret', 1)])]
        add('c09.redispatch', shape, {'A': {}}, hs, [('disp', 'A', 'P', 'await'), ('disp', 'A', 'X', 'ff')])
    # the event being handled is an instance of a subclass that is falsy (an empty batch: __len__ == 0): lineage must not depend on the truth value of an event
    for m1, b2, par in itertools.product(['ff', 'await'], 'AB', (False, True)):
        buses = {'A': dict(parallel=par), 'B': {}}
        hs = [dict(bus='A', pat='E', name='he', prog=[('disp', 'A', 'C1', m1), ('disp', b2, 'C2', 'await'), ('pause',)]), dict(bus='A', pat='E', name='he2', prog=[('pause',), ('disp', 'A', 'C3', 'ff')]),
              dict(bus='A', pat='C', name='hcA', prog=[('pause',)]), dict(bus='B', pat='C', name='hcB', prog=[('ret', 1)]), dict(bus='A', pat='X', name='hx', prog=[('ret', 0)])]
        add('c09.falsy_parent_event', f'{m1}-{b2}-p{int(par)}', buses, hs, [('disp', 'A', 'E', 'ff'), ('pause',), ('disp', 'A', 'X', 'ff'), ('await', 'E')], par=par)
    # the event being handled has already been forwarded on (its path ends with another bus) and is evicted from the tiny history of the bus that is still running
    # its handler (the handler itself overflows it with a burst): event.event_bus inside that handler is still the bus running it, and its children go there
    for hist, nb, par in itertools.product((1, 2), (3, 5), (True,)):
        hs = [dict(bus='A', pat='P', name='hp', prog=[('pause',), ('bus?',), ('burst', 'A', 'Z', nb), ('bus?',), ('disp', 'A', 'C', 'ff'), ('bus?',), ('pause',)]),
              dict(bus='A', pat='Z', name='hz', prog=[('ret', 0)], kind='sync'), dict(bus='A', pat='C', name='hc', prog=[('bus?',), ('ret', 1)]), dict(bus='B', pat='P', name='hpB', prog=[('bus?',), ('pause',)]),
              dict(bus='B', pat='Z', name='hzB', prog=[('ret', 0)], kind='sync'), dict(bus='B', pat='C', name='hcB', prog=[('bus?',), ('ret', 2)])]
        out.append(dict(prop='C09', family='c09.evicted_while_handled_and_forwarded', id=f'c09.evicted/h{hist}-n{nb}', cfg=dict(cfg, max_points=300), params=dict(par=par),
                        scn=dict(buses={'A': dict(parallel=par, hist=hist), 'B': {}}, order=['A', 'B'], handlers=hs, main=[('disp', 'A', 'P', 'ff'), ('pause',)], actors=[], forwards=[('A', 'B')], settle=3.0)))
    # a dispatch made inside a handler is REJECTED (backlog limit), the caller keeps the object and dispatches it again later - from ordinary code (no parent,
    # nobody's child) or from a handler of an unrelated event (that handler's child, that event as parent)
    for nburst, again, hist in itertools.product((53, 60), ('main', 'other_handler'), (50, 5)):
        hs = [dict(bus='A', pat='P', name='hp', prog=[('burst', 'A', 'Y', nburst), ('pause',)]), dict(bus='A', pat='Y', name='hy', prog=[('ret', 0)], kind='sync'),
              dict(bus='A', pat='Q', name='hq', prog=[('reoffer', 'A'), ('pause',)])]
        main = [('disp', 'A', 'P', 'ff'), ('pause',), ('idle', 'A')] + ([('reoffer', 'A')] if again == 'main' else [('disp', 'A', 'Q', 'ff'), ('pause',)]) + [('idle', 'A')]
        out.append(dict(prop='C09', family='c09.rejected_then_dispatched_again', id=f'c09.rej/n{nburst}-{again}-h{hist}', cfg=dict(cfg, max_points=300), params={},
                        scn=dict(buses={'A': dict(hist=hist)}, order=['A'], handlers=hs, main=main, actors=[], forwards=[], settle=3.0, no_watch=True)))
    # the grammar-generated corpus shared by the bus properties (vsched/gen.py), judged by this property's oracle
    from .. import gen
    out += gen.family('C09', tier, timeouts=(None, 0.5, 'none') if tier == 'thorough' else (None, 'none'))
    return out


def trigger(spec, res):
    return any(r[2] == 'dispatch' and (r[7] == 'fwd' or '(' in r[3]) for r in res['log'])


def oracle(spec, res):
    tr = Trace(res)
    out = []
    # (lineage is fixed at dispatch time: the clauses below are judged on whatever was dispatched, also when the run did not come to rest - that an
    # await never returns is for C03 / C04 to say, a wrong parent is wrong either way)
    fin = res['final']['events']
    explicit = {}
    for h in [spec['scn']['main']] + list(spec['scn'].get('actors', [])) + [h['prog'] for h in spec['scn']['handlers']]:
        for op in h:
            if op[0] == 'disp' and len(op) > 4 and 'parent' in op[4]:
                explicit[op[2]] = op[4]['parent']
    # where each event appears as a child
    member = {}
    for pe, fe in fin.items():
        for r in fe['results']:
            for c in r['children']:
                member.setdefault(c, []).append((pe, r['bus'], r['h']))
    for x, fe in fin.items():
        # lineage is fixed by the dispatch that was ACCEPTED first (a rejected dispatch leaves no trace - C14 - so it cannot have set a parent)
        fd = next((d for d in tr.dispatches if d[4] == x and d[6] == 'prog' and d[5] == 'ok'), None)
        if fd is None:
            continue
        who = fd[2]
        key = x.split('<')[0].split('#')[0]
        if fe['parent'] == x:
            out.append(V('event_is_its_own_parent', f'{x}.event_parent_id == own id (path {fe["path"]})', forwarded=len(fe['path']) > 1))
        if any(pe == x for pe, _, _ in member.get(x, [])):
            out.append(V('event_is_its_own_child', f'{x} in its own event_children'))
        if key in explicit:
            if fe['parent'] != explicit[key]:
                out.append(V('explicit_parent_overwritten', f'{x}: parent {fe["parent"]} expected explicit {explicit[key]}'))
            if who in tr.who_info:
                # "an event dispatched from inside a handler ... appears exactly once among the children of that specific handler's result" - whatever its parent id says
                b, h, e = tr.who_info[who]
                if sorted(member.get(x, [])) != [(e, b, h)]:
                    out.append(V('wrong_children_attribution', f'{x} (explicit parent {explicit[key]}) dispatched by {who}: appears as child in {member.get(x, [])}, expected exactly {[(e, b, h)]}'))
            continue
        if who in tr.who_info:
            b, h, e = tr.who_info[who]
            if fe['parent'] != e:
                out.append(V('wrong_parent', f'{x} dispatched by {who}: parent {fe["parent"]} expected {e}'))
            want = [(e, b, h)]
            if sorted(member.get(x, [])) != want:
                out.append(V('wrong_children_attribution', f'{x} dispatched by {who}: appears as child in {member.get(x, [])}, expected exactly {want}'))
        else:
            if fe['parent'] is not None and fe['parent'] != x:
                out.append(V('context_leak_to_non_handler_dispatch', f'{x} dispatched by {who} has parent {fe["parent"]}'))
            if member.get(x):
                out.append(V('context_leak_to_non_handler_dispatch', f'{x} dispatched by {who} recorded as child in {member[x]}'))
    for r in res['log']:
        if r[2] == 'bus?' and r[3] in tr.who_info and r[5] != tr.who_info[r[3]][0]:
            out.append(V('wrong_event_bus_in_handler', f'{r[3]} read event.event_bus == {r[5]} (handler runs on {tr.who_info[r[3]][0]})', forwarded=True))
            break
    for en in tr.enters:
        if en[5] != en[2]:
            out.append(V('wrong_event_bus_in_handler', f'{en[2]}.{en[3]}({en[4]}) saw event.event_bus == {en[5]}', forwarded=True))
            break
    return out[:8]
