"""C10  Handler timeouts are enforced and contained.  (DESIGN.md 4, C10)"""
from __future__ import annotations

import itertools

from ..oracles import Trace, V
from ..world import make as _make_plain


def make(spec, loop):
    """scenarios with a write-ahead log on some bus run on C17's world (in-memory file whose open / write are explorer-owned waits)"""
    if any(c.get('wal') for c in spec['scn']['buses'].values()):
        from .c17 import WalWorld
        return WalWorld(spec, loop)
    return _make_plain(spec, loop)

LEVEL = 'model_checking'
RULE = ('event_timeout in {0.5, 1.0} on parent and/or child; handler shapes: pause only; dispatch children then pause; await a child (own/other bus) whose handler pauses, '
        'with a grandchild running; a second handler after the slow one; a sentinel event dispatched afterwards; main finally calls wait_until_idle() on every bus. '
        'The time-out instant is placed by the explorer: at every idle point each pending deadline is a timer target, so it lands before/after each handler step. '
        'all schedules <= L deviations; both bus orders. non-trivial = at least one handler was cancelled by a deadline; distinct = distinct recorder traces')
ASSUMPTIONS = ['virtual time: a deadline fires exactly at start+timeout; computation takes no time',
               'a handler interrupted because an enclosing awaiting handler timed out may end with any terminal error result; only the handler whose own deadline passed must show TimeoutError']

EPS = 3e-3  # the datetime shim may run up to a few ms ahead of the virtual clock inside one instant


def families(tier):
    deep = tier == 'thorough'
    out = []
    cfg = dict(bound=3 if deep else 2, cap=30000 if deep else 1500, window=1.2, max_targets=4, horizon=25.0)
    shapes = ['pause', 'kids_pause', 'aw_same', 'aw_other', 'aw_same_g', 'aw_other_g', 'late_same', 'pause_pause']
    for shape, tp, tc, second, k in itertools.product(shapes, (0.5, 1.0, None), (0.5, 1.0, None), (False, True), (0, 1)):
        if tp is None and tc is None:
            continue
        if shape in ('pause', 'pause_pause') and tc is not None:
            continue
        if shape in ('pause', 'pause_pause', 'kids_pause') and k:
            continue
        if not deep and tp == tc:
            continue
        other = 'other' in shape
        names = ['A', 'B'] if other else ['A']
        cb = 'B' if other else 'A'
        copt = {} if tc is None else {'timeout': tc}
        pause_k = [('pause',)] * k
        hp = {'pause': [('pause',)], 'pause_pause': [('pause',), ('pause',)],
              'kids_pause': [('disp', 'A', 'C', 'ff', copt), ('disp', 'A', 'C2', 'ff', copt), ('pause',)],
              'aw_same': pause_k + [('disp', 'A', 'C', 'await', copt)], 'aw_other': pause_k + [('disp', 'B', 'C', 'await', copt)],
              'aw_same_g': pause_k + [('disp', 'A', 'C', 'await', copt)], 'aw_other_g': pause_k + [('disp', 'B', 'C', 'await', copt)],
              'late_same': [('disp', 'A', 'C', 'late', copt), ('pause',), ('await', 'C')]}[shape]
        hc = [('disp', cb, 'G', 'await'), ('pause',)] if shape.endswith('_g') else [('pause',)]
        hs = [dict(bus='A', pat='P', name='hp', prog=hp)]
        if second:
            hs.append(dict(bus='A', pat='P', name='hp_next', prog=[('ret', 2)]))
        if shape not in ('pause', 'pause_pause'):
            hs.append(dict(bus=cb, pat='C', name='hc', prog=hc))
            if second:
                hs.append(dict(bus=cb, pat='C', name='hc_next', prog=[('ret', 3)]))
            hs.append(dict(bus=cb, pat='G', name='hg', prog=[('pause',)]))
        for b in names:
            hs.append(dict(bus=b, pat='S', name='hs' + b, prog=[('ret', 0)]))
        # S is class... use X as the sentinel type
        for h in hs:
            if h['pat'] == 'S':
                h['pat'] = 'X'
        popt = {} if tp is None else {'timeout': tp}
        main = [('disp', 'A', 'P', 'ff', popt), ('pause',)] + [('disp', b, 'X', 'ff') for b in names] + [('idle', b) for b in names]
        for order in ([names] if len(names) == 1 else [names, names[::-1]]):
            out.append(dict(prop='C10', family='c10.timeouts', id=f'c10/{shape}-p{tp}-c{tc}-s{int(second)}-k{k}-o{"".join(order)}', cfg=cfg,
                            params=dict(shape=shape, tp=tp, tc=tc),
                            scn=dict(buses={b: {} for b in names}, order=order, handlers=hs, main=main, actors=[], forwards=[], settle=2.0)))
    # 'slow callbacks': a pending deadline may also fire at the first busy boundary after any harness-visible step, i.e. in the middle of
    # the library's own bursts (handler clean-up, completion propagation) and not only while everything is idle
    for shape, tp, tc, k in itertools.product(['aw_same', 'aw_other', 'aw_same_g', 'kids_pause'], (0.5,), (None, 1.0), (0, 1)):
        other = 'other' in shape
        names = ['A', 'B'] if other else ['A']
        cb = 'B' if other else 'A'
        copt = {} if tc is None else {'timeout': tc}
        hp = {'aw_same': [('pause',)] * k + [('disp', 'A', 'C', 'await', copt), ('pause',)], 'aw_other': [('pause',)] * k + [('disp', 'B', 'C', 'await', copt), ('pause',)],
              'aw_same_g': [('pause',)] * k + [('disp', 'A', 'C', 'await', copt), ('pause',)], 'kids_pause': [('disp', 'A', 'C', 'ff', copt), ('pause',), ('pause',)]}[shape]
        hc = [('disp', cb, 'G', 'await'), ('pause',)] if shape.endswith('_g') else [('pause',)]
        hs = [dict(bus='A', pat='P', name='hp', prog=hp), dict(bus='A', pat='P', name='hp_next', prog=[('ret', 2)]), dict(bus=cb, pat='C', name='hc', prog=hc),
              dict(bus=cb, pat='G', name='hg', prog=[('pause',)])]
        for b in names:
            hs.append(dict(bus=b, pat='X', name='hs' + b, prog=[('ret', 0)]))
        main = [('disp', 'A', 'P', 'ff', {'timeout': tp}), ('pause',)] + [('disp', b, 'X', 'ff') for b in names] + [('idle', b) for b in names]
        out.append(dict(prop='C10', family='c10.timeouts_slow_callbacks', id=f'c10/slow-{shape}-p{tp}-c{tc}-k{k}', cfg=dict(cfg, busy_timers=1, cap=30000 if deep else 2500),
                        params=dict(shape=shape, tp=tp, tc=tc, slow=True),
                        scn=dict(buses={b: {} for b in names}, order=names, handlers=hs, main=main, actors=[], forwards=[], settle=2.0)))
    # the bus of the awaited child keeps a write-ahead log: the deadline of the awaiting handler may pass while the child - all of whose handlers are done - is
    # being WRITTEN (opening and writing the file are waits like any other).  The child still reaches completion, the parent still gets its TimeoutError
    for cb, chc, second in itertools.product('AB', ('ret', 'pause'), (False, True)):
        names = ['A', 'B'] if cb == 'B' else ['A']
        hs = [dict(bus='A', pat='P', name='hp', prog=[('disp', cb, 'C', 'await'), ('pause',)]), dict(bus=cb, pat='C', name='hc', prog=[('ret', 1)] if chc == 'ret' else [('pause',), ('ret', 1)])]
        if second:
            hs.append(dict(bus='A', pat='P', name='hp_next', prog=[('ret', 2)]))
        for b in names:
            hs.append(dict(bus=b, pat='X', name='hs' + b, prog=[('ret', 0)]))
        main = [('disp', 'A', 'P', 'ff', {'timeout': 0.5}), ('pause',), ('disp', 'A', 'X', 'ff')] + ([('disp', 'B', 'X2', 'ff')] if cb == 'B' else []) + [('idle', b) for b in names]
        for order in ([names] if len(names) == 1 else [names, names[::-1]]):
            out.append(dict(prop='C10', family='c10.timeouts_while_writing_the_log', id=f'c10/wal-c{cb}-{chc}-s{int(second)}-o{"".join(order)}', cfg=dict(cfg, window=1.2, max_targets=3),
                            params=dict(shape='wal', tp=0.5, tc=None),
                            scn=dict(buses={b: dict(wal=f'/wal/{b.lower()}.jsonl') for b in names}, order=order, handlers=hs, main=main, actors=[], forwards=[], settle=3.0)))
    # a forwarded event whose handler on the forwarded-to bus overruns; also as the awaited child of a handler with its own deadline
    for place, tb, fwd_first in itertools.product(('root', 'child_aw'), (0.5, 1.0), (False, True)):
        if place == 'root':
            hs = [dict(bus='A', pat='P', name='hpA', prog=[('ret', 1)]), dict(bus='B', pat='P', name='hpB', prog=[('pause',), ('pause',)]), dict(bus='B', pat='P', name='hpB_next', prog=[('ret', 2)])]
            main = [('disp', 'A', 'P', 'ff', {'timeout': tb}), ('pause',), ('disp', 'A', 'X', 'ff'), ('disp', 'B', 'X2', 'ff'), ('idle', 'A'), ('idle', 'B')]
            params = dict(shape='fwd_root', tp=tb, tc=None)
        else:
            hs = [dict(bus='A', pat='P', name='hp', prog=[('disp', 'A', 'C', 'await', {'timeout': tb}), ('pause',)]), dict(bus='A', pat='C', name='hcA', prog=[('ret', 1)]),
                  dict(bus='B', pat='C', name='hcB', prog=[('pause',), ('pause',)]), dict(bus='B', pat='P', name='hpB', prog=[('ret', 0)])]
            main = [('disp', 'A', 'P', 'ff', {'timeout': 1.5 - tb}), ('pause',), ('disp', 'A', 'X', 'ff'), ('disp', 'B', 'X2', 'ff'), ('idle', 'A'), ('idle', 'B')]
            params = dict(shape='fwd_child', tp=1.5 - tb, tc=tb)
        for b in 'AB':
            hs.append(dict(bus=b, pat='X', name='hs' + b, prog=[('ret', 0)]))
        for order in (['A', 'B'], ['B', 'A']):
            out.append(dict(prop='C10', family='c10.timeouts_forwarded', id=f'c10/fwd-{place}-t{tb}-f{int(fwd_first)}-o{"".join(order)}', cfg=cfg, params=params,
                            scn=dict(buses={'A': {}, 'B': {}}, order=order, handlers=hs, main=main, actors=[], forwards=[('A', 'B')], fwd_first=fwd_first, settle=2.0)))
    # parallel_handlers: the awaited child has two concurrently running handlers when the parent's deadline lands
    for cb, par_a, par_b, tp, tc in itertools.product('AB', (False, True), (False, True), (0.5,), (None, 1.0)):
        if cb == 'A' and not par_a:
            continue
        if cb == 'B' and not par_b:
            continue
        names = ['A', 'B'] if cb == 'B' else ['A']
        copt = {} if tc is None else {'timeout': tc}
        hs = [dict(bus='A', pat='P', name='hp', prog=[('disp', cb, 'C', 'await', copt), ('pause',), ('pause',)]), dict(bus=cb, pat='C', name='hc1', prog=[('pause',), ('ret', 1)]),
              dict(bus=cb, pat='C', name='hc2', prog=[('guarded_pause', 0.3), ('ret', 2)] if tc is None else [('pause',), ('ret', 2)])]
        for b in names:
            hs.append(dict(bus=b, pat='X', name='hs' + b, prog=[('ret', 0)]))
        main = [('disp', 'A', 'P', 'ff', {'timeout': tp}), ('pause',)] + [('disp', b, 'X', 'ff') for b in names] + [('idle', b) for b in names]
        for order in ([names] if len(names) == 1 else [names, names[::-1]]):
            out.append(dict(prop='C10', family='c10.timeouts_parallel', id=f'c10/par-c{cb}-pa{int(par_a)}-pb{int(par_b)}-p{tp}-c{tc}-o{"".join(order)}', cfg=cfg,
                            params=dict(shape='par_child', tp=tp, tc=tc),
                            scn=dict(buses={b: dict(parallel=(par_a if b == 'A' else par_b)) for b in names}, order=order, handlers=hs, main=main, actors=[], forwards=[], settle=2.0)))
    # the grammar-generated corpus shared by the bus properties (vsched/gen.py), judged by this property's oracle
    from .. import gen
    out += gen.family('C10', tier, params=dict(shape='gen', tp=0.5, tc=None), timeouts=(0.5,), cfg=dict(window=1.2, max_targets=3))
    return out


def trigger(spec, res):
    return any(r[2] == 'exit' and r[6] == 'cancelled' for r in res['log'])


def _timeout_of(spec, ev):
    key = ev.split('<')[0].split('#')[0]
    p = spec['params']
    if key.startswith('P'):
        return p['tp']
    if key.startswith('C'):
        return p['tc']
    return None


def oracle(spec, res):
    tr = Trace(res)
    out = []
    v = res['verdict'][0]
    inline = any(a['who'] in tr.who_info for a in tr.awaits)
    if v in ('hang', 'deadlock', 'livelock'):
        what = 'wait_until_idle_never_returns' if any(d['end'] is None for d in tr.idles) else 'hang'
        out.append(V(what, f'{res["verdict"]} phase={res["phase"]} idles={[ (d["bus"], d["end"]) for d in tr.idles]}', inline_await=inline))
    if v == 'raised':
        out.append(V('main_raised', str(res['verdict'])))
    ivs = tr.intervals()
    enter_t = {en[6]: en[1] for en in tr.enters}
    # the library arms the handler's deadline when it marks the result 'started' (just before the handler's first step): with the
    # 'slow callback' deviation virtual time may pass in between, so deadlines are counted from that instant (virtual timestamp shim)
    for en in tr.enters:
        fe = res['final']['events'].get(en[4], {})
        for r in fe.get('results', []):
            if r['bus'] == en[2] and r['h'] == en[3] and r.get('started_v') is not None and r['started_v'] <= en[1] + 1e-9:
                enter_t[en[6]] = min(enter_t[en[6]], r['started_v']) if en[1] - r['started_v'] > EPS else en[1]
    exit_rec = {ex[6]: ex for ex in tr.exits}
    end_t = res['log'][-1][1] if res['log'] else 0.0
    for (a, b, bus, h, ev, who) in ivs:
        to = _timeout_of(spec, ev)
        t0 = enter_t[who]
        own_deadline = None if to is None else t0 + to
        # deadlines of enclosing handlers that were awaiting when this one entered
        enclosing = []
        enclosing_who = []
        for (a2, b2, bus2, h2, ev2, who2) in ivs:
            if who2 != who and a2 < a and (b2 is None or a < b2) and tr.awaiting(who2, a) is not None:
                to2 = _timeout_of(spec, ev2)
                if to2 is not None:
                    enclosing.append(enter_t[who2] + to2)
                    enclosing_who.append((who2, enter_t[who2] + to2))
        # a handler cut short by the deadline of an enclosing (awaiting) handler: that enclosing handler must itself stop at that deadline
        ex0 = exit_rec.get(who)
        if ex0 is not None and ex0[5] == 'cancelled' and not spec['params'].get('slow') and not (own_deadline is not None and abs(ex0[1] - own_deadline) <= EPS):
            for who2, d2 in enclosing_who:
                if abs(ex0[1] - d2) <= EPS:
                    e2 = exit_rec.get(who2)
                    if e2 is None or e2[5] != 'cancelled' or not (-EPS <= e2[1] - d2 <= 0.3 * sum(1 for r in res['log'] if r[2] == 'cleanup-begin') + EPS):
                        out.append(V('handler_survived_its_own_deadline', f'{who} was cancelled at {ex0[1]} by the deadline of {who2}, but {who2} itself ended {e2[5] if e2 else "never"} at {e2[1] if e2 else None}',
                                     inline_await=inline))
        ex = exit_rec.get(who)
        slow = bool(spec['params'].get('slow'))
        if slow and ex is not None:
            # with slow callbacks a cancellation issued at the deadline may be *delivered* later (more virtual time passes before the
            # cancelled task gets its turn): only "not before any applicable deadline" can be asserted about the instant
            if ex[5] == 'cancelled':
                ds = ([own_deadline] if own_deadline is not None else []) + enclosing
                if ds and ex[1] < min(ds) - EPS:
                    out.append(V('cancelled_before_any_deadline', f'{who} entered {t0} cancelled at {ex[1]}, deadlines own={own_deadline} enclosing={enclosing}'))
                later = [r for r in res['log'] if r[0] > ex[0] and r[2] in ('resumed', 'dispatch', 'await-begin', 'await-end') and r[3] == who]
                if later:
                    out.append(V('cancelled_handler_kept_running', f'{who}: {later[:2]}'))
            elif own_deadline is not None and ex[1] > own_deadline + EPS:
                # the cancellation is issued in the loop iteration in which the deadline becomes due; a handler that still took steps in
                # later iterations and finished normally was never stopped
                out.append(V('handler_outlived_its_deadline', f'{who} armed at {t0} timeout {to} exited {ex[5]} at {ex[1]}'))
            continue
        if ex is None:
            if own_deadline is not None and end_t > own_deadline + EPS:
                out.append(V('handler_not_cancelled_at_deadline', f'{who} entered at {t0}, timeout {to}, still running at {end_t}', inline_await=inline))
            continue
        if ex[5] == 'cancelled':
            # a cancellation is delivered only after the clean-up (async finally) of handlers that were interrupted with it has finished: allow for that
            slack = sum(0.3 for r in res['log'] if r[2] == 'cleanup-begin' and r[1] <= ex[1] + EPS)
            ok = [d for d in ([own_deadline] if own_deadline is not None else []) + enclosing if -EPS <= ex[1] - d <= slack + EPS]
            if not ok:
                out.append(V('cancelled_at_wrong_time', f'{who} entered {t0} cancelled at {ex[1]}, deadlines own={own_deadline} enclosing={enclosing}'))
            later = [r for r in res['log'] if r[0] > ex[0] and r[2] in ('resumed', 'dispatch', 'await-begin', 'await-end') and r[3] == who]
            if later:
                out.append(V('cancelled_handler_kept_running', f'{who}: {later[:2]}'))
            if own_deadline is not None and -EPS <= ex[1] - own_deadline <= slack + EPS and not any(-EPS <= ex[1] - d <= slack + EPS for d in enclosing):
                # (when an enclosing handler's deadline falls on the same instant either of them may have fired first: not judged)
                # its result must be a TimeoutError error; the remaining handlers of the event must still run
                fe = res['final']['events'].get(ev, {})
                r = [x for x in fe.get('results', []) if x['bus'] == bus and x['h'] == h]
                if not r or r[0]['status'] != 'error' or r[0]['errtype'] != 'TimeoutError':
                    out.append(V('timeout_result_not_a_TimeoutError', f'{who}: {r}'))
                for h2 in spec['scn']['handlers']:
                    if h2['bus'] == bus and h2['pat'] == ev[0] and h2['name'] != h and not any(en[2] == bus and en[3] == h2['name'] and en[4] == ev for en in tr.enters):
                        if v == 'done':
                            out.append(V('remaining_handler_not_run_after_timeout', f'{bus}.{h2["name"]} never ran for {ev} after {h} timed out', inline_await=inline))
        else:
            if own_deadline is not None and ex[1] > own_deadline + EPS:
                out.append(V('handler_outlived_its_deadline', f'{who} entered {t0} timeout {to} exited {ex[5]} at {ex[1]}'))
    if v == 'done':
        for ev, fe in res['final']['events'].items():
            if fe['status'] != 'completed' or not fe['sig']:
                out.append(V('event_never_completes', f'{ev}: status {fe["status"]} signal {fe["sig"]} results {[(r["h"], r["status"]) for r in fe["results"]]}', inline_await=inline))
            for r in fe['results']:
                if r['status'] in ('pending', 'started'):
                    out.append(V('result_left_' + r['status'], f'{ev}: {r["bus"]}.{r["h"]}', inline_await=inline))
        for b in spec['scn']['buses']:
            if not any(en[2] == b and en[4].startswith('X') for en in tr.enters):
                out.append(V('bus_stopped_processing_later_events', f'sentinel on {b} never handled', inline_await=inline))
        for d in tr.idles:
            if d['end'] is not None and (d['q'] or d['pending'] or d['started']):
                out.append(V('idle_reported_while_busy', str(d)))
    return out[:8]
