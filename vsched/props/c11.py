"""C11  Handler errors are isolated.  (DESIGN.md 4, C11)"""
from __future__ import annotations

import itertools

from ..oracles import Trace, V
from ..world import make  # noqa: F401

LEVEL = 'model_checking'
RULE = ('a raising handler placed first / middle / last among three handlers; async raise, raise after a pause, sync raise, returned exception object (sync and async); exception '
        'types ValueError, a custom exception with state, RuntimeError, KeyError, a chained exception (raise ... from ...), an exception object that is falsy (__len__ == 0) and TimeoutError raised by the handler itself; placed in the root event, an awaited child, a '
        'fire-and-forget child or a handler on a forwarded-to bus; also on an event class with a declared result type; serial and parallel_handlers; another event in flight; afterwards main awaits the event and calls '
        'event_result(raise_if_any=True/False). all schedules <= L deviations. non-trivial = a handler raised/returned an exception while another handler or event was pending; '
        'distinct = distinct recorder traces')
ASSUMPTIONS = ['identity of exception objects is tracked by the harness (id of the object it raised), not by message text']

KINDS = {
    'raise': ('async', lambda t: [('raise', t)]),
    'pause_raise': ('async', lambda t: [('pause',), ('raise', t)]),
    'sync_raise': ('sync', lambda t: [('raise', t)]),
    'ret_exc': ('async', lambda t: [('pause',), ('ret', 'exc:' + ('Custom' if t == 'Chained' else t))]),
    'sync_ret_exc': ('sync', lambda t: [('ret', 'exc:' + ('Custom' if t == 'Chained' else t))]),
}


def families(tier):
    deep = tier == 'thorough'
    out = []
    cfg = dict(bound=4 if deep else 2, cap=30000 if deep else 1200, window=0.25, max_targets=2)
    types = ['ValueError', 'Custom', 'RuntimeError', 'KeyError', 'TimeoutError', 'Chained', 'CancelledError', 'Falsy']
    for pos, kind, typ, place, par in itertools.product((0, 1, 2), KINDS, types, ['root', 'child_aw', 'child_ff', 'fwd_bus'], (False, True)):
        if not deep:
            if typ in ('RuntimeError', 'KeyError') and (kind != 'raise' or place != 'root'):
                continue
            if par and (place not in ('root', 'child_aw') or kind not in ('raise', 'pause_raise')):
                continue
            if typ == 'Custom' and kind.startswith('sync') and place != 'root':
                continue
        if typ == 'CancelledError' and 'ret_exc' in kind:
            continue
        if not deep and typ == 'Falsy' and (place not in ('root', 'child_aw') or pos == 1):
            continue
        hk, mk = KINDS[kind]
        trio = []
        ebus = 'B' if place == 'fwd_bus' else 'A'
        epat = 'P' if place in ('root', 'fwd_bus') else 'C'
        for i in range(3):
            if i == pos:
                trio.append(dict(bus=ebus, pat=epat, name=f'h{i}', prog=mk(typ), kind=hk))
            else:
                trio.append(dict(bus=ebus, pat=epat, name=f'h{i}', prog=[('pause',), ('ret', i)] if i != 1 else [('ret', i)]))
        hs = list(trio)
        names = ['A', 'B'] if place == 'fwd_bus' else ['A']
        if place in ('child_aw', 'child_ff'):
            # (after the child - failed handler and all - is done, the parent handler dispatches one more event: its lineage must be the parent's, not the failed child's)
            hs.append(dict(bus='A', pat='P', name='hp', prog=[('disp', 'A', 'C', 'await' if place == 'child_aw' else 'ff'), ('disp', 'A', 'Z', 'ff'), ('ret', 'p')]))
            hs.append(dict(bus='A', pat='Z', name='hz', prog=[('ret', 'z')]))
            hs.append(dict(bus='A', pat='P', name='hp_after', prog=[('ret', 'q')]))
        if place == 'fwd_bus':
            hs.append(dict(bus='A', pat='P', name='hpA', prog=[('ret', 'a')]))
        for b in names:
            hs.append(dict(bus=b, pat='X', name='hx' + b, prog=[('ret', 0)]))
        target = 'P'
        main = [('disp', 'A', 'P', 'late'), ('disp', ebus, 'X', 'ff'), ('await', 'P'), ('result', 'P', False), ('result', 'P', True)]
        if place in ('child_aw', 'child_ff'):
            main += [('pause',), ('result', 'C<hp:P', False), ('result', 'C<hp:P', True)]
        out.append(dict(prop='C11', family='c11.isolation', id=f'c11/pos{pos}-{kind}-{typ}-{place}-p{int(par)}', cfg=cfg,
                        params=dict(pos=pos, kind=kind, typ=typ, place=place, ebus=ebus, epat=epat),
                        scn=dict(buses={b: dict(parallel=par) for b in names}, order=names, handlers=hs, main=main, actors=[],
                                 forwards=[('A', 'B')] if place == 'fwd_bus' else [], settle=3.0)))
    # the same on an event class that DECLARES a result type (BaseEvent[int]; the other handlers return conforming ints): the raised / returned exception
    # object is still what is recorded, the type check must not get in its way
    for pos, kind, typ, par in itertools.product((0, 1, 2), KINDS, ['ValueError', 'Custom', 'TimeoutError'], (False, True)):
        if par and kind not in ('raise', 'ret_exc'):
            continue
        hk, mk = KINDS[kind]
        hs = []
        for i in range(3):
            hs.append(dict(bus='A', pat='T', name=f'h{i}', prog=mk(typ), kind=hk) if i == pos else dict(bus='A', pat='T', name=f'h{i}', prog=[('pause',), ('ret', i)] if i != 1 else [('ret', i)]))
        hs.append(dict(bus='A', pat='X', name='hxA', prog=[('ret', 0)]))
        main = [('disp', 'A', 'T', 'late'), ('disp', 'A', 'X', 'ff'), ('await', 'T'), ('result', 'T', False), ('result', 'T', True)]
        out.append(dict(prop='C11', family='c11.isolation_typed_event', id=f'c11/typed-pos{pos}-{kind}-{typ}-p{int(par)}', cfg=cfg,
                        params=dict(pos=pos, kind=kind, typ=typ, place='root', ebus='A', epat='T'),
                        scn=dict(buses={'A': dict(parallel=par)}, order=['A'], handlers=hs, main=main, actors=[], forwards=[], settle=3.0)))
    # a handler of a child has ALREADY failed when the processing of that child is interrupted (the awaiting parent handler times out while a sibling of the failed
    # handler is still running): the recorded error of the failed handler stays what it raised
    for typ, kind, par_c in itertools.product(['ValueError', 'Custom', 'Falsy'], ['raise', 'pause_raise', 'ret_exc'], (False, True)):
        hk, mk = KINDS[kind]
        hs = [dict(bus='A', pat='P', name='hp', prog=[('disp', 'B', 'C', 'await'), ('ret', 'p')]),
              dict(bus='B', pat='C', name='h0', prog=mk(typ), kind=hk), dict(bus='B', pat='C', name='h1', prog=[('pause',), ('pause',), ('ret', 1)]),
              dict(bus='A', pat='X', name='hxA', prog=[('ret', 0)]), dict(bus='B', pat='X', name='hxB', prog=[('ret', 0)])]
        main = [('disp', 'A', 'P', 'late', {'timeout': 0.5}), ('disp', 'B', 'X', 'ff'), ('await', 'P'), ('pause',), ('result', 'C<hp:P', False), ('result', 'C<hp:P', True)]
        for order in (['A', 'B'], ['B', 'A']):
            out.append(dict(prop='C11', family='c11.failed_then_interrupted', id=f'c11/intr-{kind}-{typ}-p{int(par_c)}-o{"".join(order)}', cfg=dict(cfg, window=0.8, max_targets=2),
                            params=dict(pos=0, kind=kind, typ=typ, place='child_aw', ebus='B', epat='C', interrupted=True),
                            scn=dict(buses={'A': {}, 'B': dict(parallel=par_c)}, order=order, handlers=hs, main=main, actors=[], forwards=[], settle=3.0)))
    # on a parallel_handlers bus: a handler fails while its sibling is awaiting a child (on a serial second bus) whose second handler has not started yet
    for typ, kind in itertools.product(['ValueError', 'TimeoutError', 'Chained', 'CancelledError'], ['raise', 'pause_raise']):
        hk, mk = KINDS[kind]
        hs = [dict(bus='A', pat='P', name='h0', prog=mk(typ), kind=hk), dict(bus='A', pat='P', name='h1', prog=[('disp', 'B', 'C', 'await'), ('ret', 1)]),
              dict(bus='A', pat='P', name='h2', prog=[('pause',), ('ret', 2)]),
              dict(bus='B', pat='C', name='hc1', prog=[('pause',), ('ret', 'c1')]), dict(bus='B', pat='C', name='hc2', prog=[('ret', 'c2')]),
              dict(bus='A', pat='X', name='hxA', prog=[('ret', 0)]), dict(bus='B', pat='X', name='hxB', prog=[('ret', 0)])]
        main = [('disp', 'A', 'P', 'late'), ('disp', 'B', 'X', 'ff'), ('await', 'P'), ('result', 'P', False), ('result', 'P', True)]
        for order in (['A', 'B'], ['B', 'A']):
            out.append(dict(prop='C11', family='c11.isolation_parallel_siblings', id=f'c11/sib-{kind}-{typ}-o{"".join(order)}', cfg=cfg,
                            params=dict(pos=0, kind=kind, typ=typ, place='root', ebus='A', epat='P'),
                            scn=dict(buses={'A': dict(parallel=True), 'B': {}}, order=order, handlers=hs, main=main, actors=[], forwards=[], settle=3.0)))
    return out


def trigger(spec, res):
    return any(r[2] == 'exit' and r[6] == 'raised' for r in res['log']) or any(r[2] == 'state' and any(x[2] == 'error' for x in r[4][2]) for r in res['log'])


def oracle(spec, res):
    tr = Trace(res)
    out = []
    p = spec['params']
    typ = p['typ']
    if typ == 'Chained' and 'ret_exc' in p['kind']:
        typ = 'Custom'
    v = res['verdict'][0]
    if v != 'done':
        out.append(V('hang_or_crash', str(res['verdict']), exc_type=typ))
        return out
    for a in tr.awaits:
        if a['kind'] == 'await-raised':
            out.append(V('await_raised', f'{a}', exc_type=typ))
    for d in tr.dispatches:
        if d[5].startswith('raised'):
            out.append(V('dispatch_raised', str(d), exc_type=typ))
    # every harness handler exactly once per accepted (bus, event)
    accepted = {(bus, ev) for _, bus, ev, _, _ in tr.accepted()}
    cnt = {}
    for en in tr.enters:
        cnt[(en[2], en[3], en[4])] = cnt.get((en[2], en[3], en[4]), 0) + 1
    for (bus, ev) in accepted:
        for h in spec['scn']['handlers']:
            if h['bus'] == bus and h['pat'] == ev[0]:
                n = cnt.get((bus, h['name'], ev), 0)
                if p.get('interrupted') and ev[0] == p['epat'] and n == 0:
                    continue  # a handler of the interrupted event that had not started is cancelled, by design
                if n != 1:
                    out.append(V('other_handler_or_event_affected', f'{bus}.{h["name"]} ran {n} times for {ev}', exc_type=typ))
    fin = res['final']['events']
    bad_name = f'h{p["pos"]}'
    if p.get('interrupted'):
        # the family is about a handler that HAD failed before the interruption came; schedules in which the interruption reaches it first are not judged
        failed_first = any(x[2] == p['ebus'] and x[3] == bad_name and (x[5] == 'raised' or 'ret_exc' in p['kind']) and x[5] != 'cancelled' for x in tr.exits)
        if not failed_first:
            return out
    target = [ev for ev in fin if ev[0] == p['epat']]
    for ev in target:
        fe = fin[ev]
        if fe['status'] != 'completed' or not fe['sig']:
            out.append(V('event_did_not_complete', f'{ev}: {fe["status"]} {fe["sig"]}', exc_type=typ))
        for r in fe['results']:
            if r['h'] == 'dispatch':
                continue
            if r['bus'] == p['ebus'] and r['h'] == bad_name:
                exp = f'{typ}@{p["ebus"]}.{bad_name}({ev})'
                if r['status'] != 'error':
                    out.append(V('raising_handler_result_not_error', f'{ev}: {r}', exc_type=typ))
                elif r['err'] != exp:
                    out.append(V('error_result_is_not_the_raised_object', f'{ev}: result error is {r["err"]} ({r["errtype"]}), handler raised {exp}', exc_type=typ))
                if r['value'] != 'None':
                    out.append(V('error_result_keeps_a_value', f'{ev}: {r}', exc_type=typ))
            elif r['status'] != 'completed' and not (p.get('interrupted') and r['status'] == 'error'):  # (an interrupted sibling ends with the interruption's error)
                out.append(V('other_handler_result_affected', f'{ev}: {r}', exc_type=typ))
    for ev, fe in fin.items():
        if fe['status'] != 'completed' or not fe['sig']:
            out.append(V('event_did_not_complete', f'{ev}: {fe["status"]} {fe["sig"]}', exc_type=typ))
    # a handler's failure leaks nothing into what is dispatched afterwards: every event a handler dispatched has that handler's event as its parent and is that
    # handler's child, and nobody else's
    member = {}
    for pe, fe in fin.items():
        for r in fe['results']:
            for ch in r['children']:
                member.setdefault(ch, []).append((pe, r['bus'], r['h']))
    for x, fe in fin.items():
        fd = next((d for d in tr.dispatches if d[4] == x and d[6] == 'prog' and d[5] == 'ok'), None)
        if fd is None or fd[2] not in tr.who_info:
            continue
        b_, h_, e_ = tr.who_info[fd[2]]
        if fe['parent'] != e_ or sorted(member.get(x, [])) != [(e_, b_, h_)]:
            out.append(V('error_leaked_context_to_a_later_dispatch', f'{x} dispatched by {fd[2]}: parent {fe["parent"]}, child of {member.get(x, [])}; expected parent {e_}, child of {(e_, b_, h_)}', exc_type=typ))
    # accessors
    for r in res['log']:
        if r[2] != 'accessor':
            continue
        _, _, _, who, ev, flag, how, what = r
        has_err = any(x['status'] == 'error' for x in fin.get(ev, {}).get('results', []))
        first_err = next((x for x in fin.get(ev, {}).get('results', []) if x['status'] == 'error'), None)
        if flag is False and how == 'raised':
            out.append(V('accessor_raised_with_raise_if_any_false', str(r), exc_type=typ))
        if flag is True and has_err:
            if how != 'raised':
                out.append(V('accessor_did_not_raise_with_raise_if_any_true', str(r), exc_type=typ))
            elif ev[0] == p['epat'] and what != f'{typ}@{p["ebus"]}.{bad_name}({ev})':
                out.append(V('accessor_raised_a_different_object', f'{r} expected {typ}@{p["ebus"]}.{bad_name}({ev})', exc_type=typ))
        if flag is True and not has_err and how == 'raised':
            out.append(V('accessor_raised_without_error', str(r), exc_type=typ))
    return out[:8]
