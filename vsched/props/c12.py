"""C12  Handler results are type-checked and accessor views are consistent.  (DESIGN.md 4, C12)

Sequential code: the deciding step is complete enumeration of a finite input alphabet against an independent
reference model written from the README, each case executed on the real bus (virtual loop, default schedule).
"""
from __future__ import annotations

import asyncio
import itertools
import multiprocessing as mp
import os
import time
import warnings
from typing import Any, Literal, Optional, Union

from pydantic import BaseModel

from .. import seams
from ..oracles import V

seams.boot()
from bubus import BaseEvent, EventBus  # noqa: E402

LEVEL = 'exploration'
RULE = ('(a) every (declared result type, returned value) pair from 15 declared types x their hand-labelled value lists (conforming, coercible, non-conforming, None, exception object, '
        'BaseEvent), and for 6 (thorough: all 14) types every value again under 5 declaration styles (generic parameter, class field, override in a subclass of a generic parent, inherited, '
        'instance keyword) x 3 instantiation histories (fresh classes, parent instantiated first, self-parent-self); (b) every sequence of <= 3 handler outcomes over {1, "a", None, {a:1}, {a:2,b:3}, [1], [2,3], raises, returns-event} (quick: all of length <= 2 plus all length-3 sequences '
        'over a 6-letter sub-alphabet) x raise_if_any x raise_if_none x include in {default, all, is-int} x the six accessors (flat_dict also x raise_if_conflicts), compared with a reference '
        'model. non-trivial = the case has a non-default flag, a declared type, or mixes two kinds of outcome; distinct = distinct case descriptors')
ASSUMPTIONS = ['the reference model of the accessors is written from the README: include filters recorded results, values come back in handler order, the first recorded error object is re-raised '
               'when raise_if_any, ValueError on none / on conflict', 'handlers are sync functions, one bus, default schedule: scheduling is not a dimension of this property']


class M(BaseModel):
    x: int


class EvNone(BaseEvent):
    pass


class EvInt(BaseEvent[int]):
    pass


class EvStr(BaseEvent[str]):
    pass


class EvBool(BaseEvent[bool]):
    pass


class EvFloat(BaseEvent[float]):
    pass


class EvBytes(BaseEvent[bytes]):
    pass


class EvListInt(BaseEvent[list[int]]):
    pass


class EvDictStrInt(BaseEvent[dict[str, int]]):
    pass


class EvIntOrNone(BaseEvent[int | None]):
    pass


class EvOptStr(BaseEvent[Optional[str]]):
    pass


class EvUnion(BaseEvent[Union[int, str]]):
    pass


class EvLiteral(BaseEvent[Literal['a', 'b']]):
    pass


class EvModel(BaseEvent[M]):
    pass


class EvListModel(BaseEvent[list[M]]):
    pass


class EvTuple(BaseEvent[tuple[int, str]]):
    pass


class Other(BaseEvent):
    pass


TY: dict[str, Any] = {'int': int, 'str': str, 'bool': bool, 'float': float, 'bytes': bytes, 'list[int]': list[int], 'dict[str,int]': dict[str, int], 'int|None': int | None,
                      'Optional[str]': Optional[str], 'Union[int,str]': Union[int, str], "Literal['a','b']": Literal['a', 'b'], 'Model': M, 'list[Model]': list[M],
                      'tuple[int,str]': tuple[int, str]}
# how the result type is declared, and which classes were instantiated before (class-level caches make the history matter)
STYLES = ['generic', 'field', 'override_of_generic_parent', 'inherited_from_generic_parent', 'instance_kwarg']
ORDERS = ['fresh', 'parent_first', 'self_parent_self']


class _M2(BaseModel):
    y: str


_M2.__name__ = _M2.__qualname__ = 'M'  # prints like M (same module, same qualified name) but is another type with other fields


def _twin_of(T):
    return list[_M2] if T == list[M] else _M2


def make_classes(style, T):
    """fresh classes per case: returns (event class, parent class or None, kwargs for the instance)"""
    U = str if T is not str else int
    if style == 'generic':
        return type('E', (BaseEvent[T],), {'__module__': __name__}), None, {}
    if style == 'field':
        return type('E', (BaseEvent,), {'__module__': __name__, '__annotations__': {'event_result_type': Any}, 'event_result_type': T}), None, {}
    if style == 'override_of_generic_parent':
        parent = type('Parent', (BaseEvent[U],), {'__module__': __name__})
        return type('E', (parent,), {'__module__': __name__, '__annotations__': {'event_result_type': Any}, 'event_result_type': T}), parent, {}
    if style == 'inherited_from_generic_parent':
        parent = type('Parent', (BaseEvent[T],), {'__module__': __name__})
        return type('E', (parent,), {'__module__': __name__}), parent, {}
    if style == 'instance_kwarg':
        parent = type('Parent', (BaseEvent[U],), {'__module__': __name__})
        return type('E', (BaseEvent,), {'__module__': __name__}), parent, {'event_result_type': T}
    raise KeyError(style)


# (falsy values of the wrong type are in every list on purpose: '' 0 [] {} () 0.0 False)
# label: 'ok' conforming (stored value must equal), 'co' coercible (either outcome; a completed value must conform), 'bad' non-conforming
TYPES: dict[str, tuple[type, Any, list]] = {
    'none': (EvNone, None, [('ok', 1), ('ok', 'a'), ('ok', [1, 'x']), ('ok', {'k': object}), ('ok', 1.5), ('ok', b'z')]),
    'int': (EvInt, lambda v: isinstance(v, int), [('bad', ''), ('bad', []), ('co', 0.0), ('co', False), ('ok', 5), ('ok', 0), ('ok', -3), ('co', '7'), ('co', 7.0), ('co', True), ('bad', 'x'), ('bad', 7.5), ('bad', [1]), ('bad', {'a': 1})]),
    'str': (EvStr, lambda v: isinstance(v, str), [('bad', 0), ('bad', []), ('bad', {}), ('ok', 'hi'), ('ok', ''), ('bad', 5), ('bad', [1]), ('bad', {'a': 1}), ('co', b'raw')]),
    'bool': (EvBool, lambda v: isinstance(v, bool), [('co', 0), ('co', ''), ('bad', {}), ('ok', True), ('ok', False), ('co', 1), ('co', 'true'), ('bad', 'maybe'), ('bad', 7), ('bad', [])]),
    'float': (EvFloat, lambda v: isinstance(v, float), [('co', 0), ('bad', ''), ('bad', []), ('ok', 1.5), ('co', 2), ('co', '3.5'), ('bad', 'x'), ('bad', [1.0])]),
    'bytes': (EvBytes, lambda v: isinstance(v, bytes), [('co', ''), ('bad', 0), ('bad', []), ('ok', b'ab'), ('co', 'text'), ('bad', 5), ('bad', [1])]),
    'list[int]': (EvListInt, lambda v: isinstance(v, list) and all(isinstance(x, int) for x in v), [('co', ()), ('bad', 0), ('bad', ''), ('co', {}), ('ok', [1, 2]), ('ok', []), ('co', ['1', 2]), ('co', (1, 2)), ('bad', ['x']), ('bad', 5), ('bad', {'a': 1})]),
    'dict[str,int]': (EvDictStrInt, lambda v: isinstance(v, dict) and all(isinstance(k, str) and isinstance(x, int) for k, x in v.items()),
                      [('co', []), ('bad', 0), ('bad', ''), ('ok', {'a': 1}), ('ok', {}), ('co', {'a': '2'}), ('bad', {'a': 'x'}), ('bad', [1]), ('bad', 5)]),
    'int|None': (EvIntOrNone, lambda v: v is None or isinstance(v, int), [('bad', ''), ('bad', []), ('co', 0.0), ('ok', 5), ('ok', 0), ('co', '7'), ('bad', 'x'), ('bad', [1])]),
    'Optional[str]': (EvOptStr, lambda v: v is None or isinstance(v, str), [('bad', 0), ('bad', []), ('ok', 'hi'), ('ok', ''), ('bad', 5), ('bad', [1])]),
    'Union[int,str]': (EvUnion, lambda v: isinstance(v, (int, str)), [('bad', []), ('bad', {}), ('co', 0.0), ('ok', 5), ('ok', 'x'), ('bad', [1]), ('bad', {'a': 1}), ('co', 2.0), ('bad', 2.5)]),
    "Literal['a','b']": (EvLiteral, lambda v: v in ('a', 'b'), [('bad', ''), ('bad', 0), ('bad', []), ('ok', 'a'), ('ok', 'b'), ('bad', 'c'), ('bad', 1), ('bad', ['a'])]),
    'Model': (EvModel, lambda v: isinstance(v, M), [('co', {}), ('bad', 0), ('bad', ''), ('bad', []), ('ok', M(x=1)), ('co', {'x': 2}), ('co', {'x': '3'}), ('bad', {'y': 1}), ('bad', 5), ('bad', 'x')]),
    'list[Model]': (EvListModel, lambda v: isinstance(v, list) and all(isinstance(x, M) for x in v), [('co', ()), ('bad', 0), ('bad', ''), ('ok', [M(x=1)]), ('ok', []), ('co', [{'x': 1}]), ('bad', [{'y': 1}]), ('bad', 5)]),
    'tuple[int,str]': (EvTuple, lambda v: isinstance(v, tuple) and len(v) == 2 and isinstance(v[0], int) and isinstance(v[1], str), [('co', ()), ('bad', 0), ('bad', ''), ('ok', (1, 'a')), ('co', [1, 'a']), ('bad', (1,)), ('bad', ('a', 1)), ('bad', 5)]),
}


def _run_handlers(evcls, fns):
    """dispatch one event of class evcls to a fresh bus with the given sync handlers, await it, return the event"""
    from ..engine import run_plain

    async def go(loop):
        with warnings.catch_warnings():
            warnings.simplefilter('ignore')
            bus = EventBus(name='T')
            for f in fns:
                bus.on(evcls, f)
            ev = bus.dispatch(evcls())
            await ev
            return bus, ev

    return go


def check_type_case(tname, label, value, special=None, style=None, order='fresh'):
    """returns list of violations for one (declared type, returned value) pair"""
    from ..engine import run_plain
    evcls, conforms, _ = TYPES[tname]
    parent, ekw = None, {}
    if style is not None:
        evcls, parent, ekw = make_classes(style, TY[tname])
    out = []
    box = {}
    if special == 'exception':
        value = ValueError('returned, not raised')
    elif special == 'event':
        value = Other()
    elif special == 'none':
        value = None

    def h(e):
        return value

    async def go(loop):
        with warnings.catch_warnings():
            warnings.simplefilter('ignore')
            bus = EventBus(name='T')
            bus.on(evcls.__name__, h)
            if order in ('parent_first',) and parent is not None:
                parent()
            if order == 'twin_type_first':
                # an event whose declared result type is a DIFFERENT type that prints exactly like this one (a second model class called M in the same
                # module, e.g. a schema version built at run time) has been through the bus before: whatever is cached per type must not be keyed by its text
                twin_cls = type('Twin', (BaseEvent[_twin_of(TY[tname])],), {'__module__': __name__})

                def th(e):
                    return [{'y': 'a'}] if tname.startswith('list') else {'y': 'a'}
                bus.on(twin_cls.__name__, th)
                tev = await bus.dispatch(twin_cls())
                box['twin'] = [r for r in tev.event_results.values()]
            if order == 'self_parent_self':
                first = bus.dispatch(evcls(**ekw))
                await first
                if parent is not None:
                    await bus.dispatch(parent())
            ev = bus.dispatch(evcls(**ekw))
            await ev
            box['r'] = [r for r in ev.event_results.values()]
            await bus.stop(timeout=0, clear=True)

    run_plain(go)
    rs = box['r']
    tags = dict(part='types', type=tname, label=special or label, style=style or 'module_generic', order=order)
    desc = f'type {tname} (declared via {style or "module-level generic"}, history {order}) value {value!r}'
    if len(rs) != 1:
        return [V('wrong_number_of_results', f'{desc}: {rs}', **tags)]
    for tr_ in box.get('twin', []):
        good = tr_.status == 'completed' and (isinstance(tr_.result, _M2) or (isinstance(tr_.result, list) and all(isinstance(x, _M2) for x in tr_.result)))
        if not good:
            out.append(V('conforming_value_rejected', f'{desc}: the twin type\'s own conforming value ended {tr_.status} {tr_.result!r} {tr_.error!r}', **tags))
    r = rs[0]
    if special == 'exception':
        if r.status != 'error' or r.error is not value or r.result is not None:
            out.append(V('returned_exception_not_recorded_as_error', f'{desc}: status {r.status} error {r.error!r} result {r.result!r}', **tags))
    elif special == 'event':
        if r.status != 'completed' or r.result is not value:
            out.append(V('returned_event_not_stored', f'{desc}: status {r.status} result {r.result!r}', **tags))
    elif special == 'none':
        if r.status != 'completed' or r.result is not None:
            out.append(V('none_result_not_completed', f'{desc}: status {r.status} result {r.result!r} error {r.error!r}', **tags))
    elif tname == 'none':
        if r.status != 'completed' or r.result is not value:
            out.append(V('untyped_result_not_stored_unchanged', f'{desc}: status {r.status} result {r.result!r}', **tags))
    elif label == 'ok':
        if r.status != 'completed' or r.result != value or not conforms(r.result):
            out.append(V('conforming_value_rejected', f'{desc}: status {r.status} result {r.result!r} error {r.error!r}', **tags))
    elif label == 'bad':
        if r.status != 'error' or r.result is not None or r.error is None:
            out.append(V('non_conforming_value_accepted', f'{desc}: status {r.status} result {r.result!r} error {r.error!r}', **tags))
    else:  # coercible: either outcome, but a completed value must conform
        if r.status == 'completed':
            if not conforms(r.result):
                out.append(V('completed_value_does_not_conform', f'{desc}: stored {r.result!r}', **tags))
        elif not (r.status == 'error' and r.result is None and r.error is not None):
            out.append(V('coercible_value_neither_completed_nor_error', f'{desc}: status {r.status} result {r.result!r}', **tags))
    if r.status == 'error' and r.result is not None:
        out.append(V('error_result_keeps_a_value', f'{desc}: {r.result!r}', **tags))
    return out


# ---------------------------------------------------------------------------------------------------------------------
ALPHA_FULL = ['1', 'a', 'None', 'd1', 'd2', 'l1', 'l2', 'raise', 'event', 'cancelled']
ALPHA_SMALL = ['1', 'None', 'd1', 'd2', 'l1', 'raise', 'cancelled']
INCLUDES = ['default', 'all', 'isint']
ACCESSORS = ['event_result', 'event_results_list', 'event_results_by_handler_id', 'event_results_by_handler_name', 'event_results_flat_dict', 'event_results_flat_list']


def _mk_value(sym, errs, evs, i):
    if sym == '1':
        return 1
    if sym == 'a':
        return 'a'
    if sym == 'None':
        return None
    if sym == 'd1':
        return {'a': 1}
    if sym == 'd2':
        return {'a': 2, 'b': 3}
    if sym == 'l1':
        return [1]
    if sym == 'l2':
        return [2, 3]
    raise KeyError(sym)


def reference(seq, recs, accessor, include, raise_if_any, raise_if_none, raise_if_conflicts):
    """independent model.  recs: per handler (handler_id, handler_name, kind, value, error) in handler order.
    returns ('value', v) or ('raise', exception-identity-or-type)"""
    def inc(r):
        hid, hn, kind, val, err = r
        if include == 'all':
            base = True
        elif include == 'isint':
            base = isinstance(val, int)
        else:
            base = kind == 'completed' and val is not None and not isinstance(val, (BaseException, BaseEvent)) and err is None
        if accessor == 'event_results_flat_dict':
            return isinstance(val, dict) and base
        if accessor == 'event_results_flat_list':
            return isinstance(val, list) and base
        return base
    errors = [r for r in recs if r[4] is not None]
    if raise_if_any and errors:
        return ('raise', ('same', id(errors[0][4])))
    included = [r for r in recs if inc(r)]
    if raise_if_none and not included:
        return ('raise', ('type', 'ValueError'))
    if accessor == 'event_result':
        return ('value', included[0][3] if included else None)
    if accessor == 'event_results_list':
        return ('value', [r[3] for r in included])
    if accessor == 'event_results_by_handler_id':
        return ('value', {r[0]: r[3] for r in included})
    if accessor == 'event_results_by_handler_name':
        return ('value', {r[1]: r[3] for r in included})
    if accessor == 'event_results_flat_dict':
        merged: dict = {}
        for r in included:
            if not r[3]:
                continue
            if raise_if_conflicts and (merged.keys() & r[3].keys()):
                return ('raise', ('type', 'ValueError'))
            merged.update(r[3])
        return ('value', merged)
    if accessor == 'event_results_flat_list':
        flat: list = []
        for r in included:
            flat.extend(r[3])
        return ('value', flat)
    raise KeyError(accessor)


def check_sequence(seq):
    """one handler-outcome sequence x all flag combinations x all accessors.  returns (n_cases, n_nontrivial, violations)"""
    from ..engine import run_plain
    errs, evs, fns = {}, {}, []
    for i, sym in enumerate(seq):
        if sym in ('raise', 'cancelled'):
            # 'cancelled': the handler ends with a CancelledError nobody asked for (it awaited something that was cancelled): an ordinary recorded error,
            # although not an Exception subclass
            ex = ValueError(f'boom {i}') if sym == 'raise' else asyncio.CancelledError(f'own {i}')
            errs[i] = ex

            def f(e, ex=ex):
                raise ex
        elif sym == 'event':
            other = Other()
            evs[i] = other

            def f(e, other=other):
                return other
        else:
            val = _mk_value(sym, errs, evs, i)

            def f(e, val=val):
                return val
        f.__name__ = f'h{i}'
        fns.append(f)
    out, n_cases, n_nontrivial = [], 0, 0
    box = {}

    async def go(loop):
        with warnings.catch_warnings():
            warnings.simplefilter('ignore')
            bus = EventBus(name='T')
            for f in fns:
                bus.on(EvNone, f)
            ev = bus.dispatch(EvNone())
            await ev
            recs = []
            for r in ev.event_results.values():
                recs.append((r.handler_id, r.handler_name, r.status, r.result, r.error))
            box['recs'] = recs
            # the recorded results themselves must reflect the handler outcomes, in handler order
            res = {}
            for acc, inc, ria, rin in itertools.product(ACCESSORS, INCLUDES, (True, False), (True, False)):
                for ric in ((True, False) if acc == 'event_results_flat_dict' else (None,)):
                    kw: dict = dict(raise_if_any=ria, raise_if_none=rin)
                    if inc == 'all':
                        kw['include'] = lambda r: True
                    elif inc == 'isint':
                        kw['include'] = lambda r: isinstance(r.result, int)
                    if ric is not None:
                        kw['raise_if_conflicts'] = ric
                    try:
                        got = ('value', await getattr(ev, acc)(**kw))
                    except BaseException as ex:  # noqa: BLE001
                        got = ('raise', ex)
                    res[(acc, inc, ria, rin, ric)] = got
            box['res'] = res
            await bus.stop(timeout=0, clear=True)

    run_plain(go)
    recs = box['recs']
    base_tags = dict(part='accessors')
    if len(recs) != len(seq):
        return 1, 1, [V('recorded_results_do_not_match_handlers', f'seq {seq}: {recs}', **base_tags)]
    for i, (sym, r) in enumerate(zip(seq, recs)):
        hid, hn, status, val, err = r
        okrec = (sym in ('raise', 'cancelled') and status == 'error' and err is errs[i] and val is None) or \
                (sym == 'event' and status == 'completed' and val is evs[i]) or \
                (sym not in ('raise', 'cancelled', 'event') and status == 'completed' and val == _mk_value(sym, None, None, i) and err is None)
        if not okrec or not hn.endswith(f'h{i}'):
            out.append(V('recorded_results_do_not_match_handlers', f'seq {seq} handler {i}: {r}', **base_tags))
    mixed = len({('raise' if s in ('raise', 'cancelled') else 'none' if s == 'None' else 'val') for s in seq}) > 1
    for key, got in box['res'].items():
        acc, inc, ria, rin, ric = key
        n_cases += 1
        default_rin = acc != 'event_results_flat_dict'
        if mixed or inc != 'default' or ria is not True or rin is not default_rin or ric is False:
            n_nontrivial += 1
        want = reference(seq, recs, acc, inc, ria, rin, ric if ric is not None else True)
        ok = False
        if want[0] == 'value' and got[0] == 'value':
            ok = got[1] == want[1] and type(got[1]) is type(want[1])
            if ok and isinstance(want[1], (list, dict)):
                ok = list(got[1]) == list(want[1])  # order of keys / values
        elif want[0] == 'raise' and got[0] == 'raise':
            if want[1][0] == 'same':
                ok = id(got[1]) == want[1][1]
            else:
                ok = type(got[1]).__name__ == want[1][1]
        if not ok:
            has_none = any(r[3] is None for r in recs)
            gs = ('value', got[1]) if got[0] == 'value' else ('raise', f'{type(got[1]).__name__}: {str(got[1])[:80]}')
            ws = want if want[0] == 'value' else ('raise', 'the recorded error object' if want[1][0] == 'same' else want[1][1])
            out.append(V('accessor_disagrees_with_reference', f'seq {list(seq)} {acc}(include={inc}, raise_if_any={ria}, raise_if_none={rin}, raise_if_conflicts={ric}): got {gs!r} expected {ws!r}',
                         part='accessors', accessor=acc, include=inc, none_result_included=bool(has_none and inc != 'default'),
                         got_exception=type(got[1]).__name__ if got[0] == 'raise' else ''))
    return n_cases, n_nontrivial, out


def _sequences(tier):
    seqs = []
    if tier == 'thorough':
        for n in (1, 2, 3):
            seqs += list(itertools.product(ALPHA_FULL, repeat=n))
    else:
        for n in (1, 2):
            seqs += list(itertools.product(ALPHA_FULL, repeat=n))
        seqs += [s for s in itertools.product(ALPHA_SMALL, repeat=3)]
    seen, out = set(), []
    for s in seqs:
        if s not in seen:
            seen.add(s)
            out.append(s)
    return out


def _type_cases(tier='quick'):
    cases = []
    for tname, (cls, conf, vals) in TYPES.items():
        for i, (label, _) in enumerate(vals):
            cases.append(('type', tname, i, None))
        for sp in ('none', 'exception', 'event'):
            cases.append(('type', tname, -1, sp))
    for tname in ('Model', 'list[Model]'):
        for i in range(len(TYPES[tname][2])):
            cases.append(('type', tname, i, None, 'generic', 'twin_type_first'))
    # declaration styles x instantiation histories (class-level caches): every value of every declared type
    for tname in TY:
        if tier != 'thorough' and tname not in ('int', 'str', 'list[int]', 'int|None', "Literal['a','b']", 'Model'):
            continue
        vals = TYPES[tname][2]
        for style, order in itertools.product(STYLES, ORDERS):
            if order != 'fresh' and style in ('generic', 'field'):
                continue
            for i in range(len(vals)):
                cases.append(('type', tname, i, None, style, order))
    return cases


def _work(case):
    seams.boot()
    try:
        if case[0] == 'type':
            tname, i, sp = case[1], case[2], case[3]
            label, value = TYPES[tname][2][i] if i >= 0 else ('', None)
            v = check_type_case(tname, label, value, sp, *(case[4:6] if len(case) > 4 else ()))
            return case, 1, 1, v, None
        n, nt, v = check_sequence(case[1])
        return case, n, nt, v, None
    except BaseException as e:  # noqa: BLE001
        import traceback
        return case, 0, 0, [], f'{type(e).__name__}: {e}\n{traceback.format_exc()[-800:]}'


def run_custom(tier, seed, classify, jobs):
    cases = _type_cases(tier) + [('seq', s) for s in _sequences(tier)]
    k = seed % len(cases)
    cases = cases[k:] + cases[:k]
    agg = dict(scenarios=len(cases), executions=0, points=0, transitions=0, traces=set(), triggered=0, verdicts={}, violations=[], n_violations=0, errors=[], known={},
               capped=[], families={}, samples=[], collapsed=0, levels={}, orders=set(), clauses={})
    fam = {'c12.types': dict(scenarios=0, executions=0, triggered=0, distinct=set(), violations=0, completed_level=0, capped=0, sample=None),
           'c12.accessors': dict(scenarios=0, executions=0, triggered=0, distinct=set(), violations=0, completed_level=0, capped=0, sample=None)}
    ctx = mp.get_context('fork')
    with ctx.Pool(jobs) as pool:
        for case, n, nt, viols, err in pool.imap_unordered(_work, cases, chunksize=4):
            f = fam['c12.types' if case[0] == 'type' else 'c12.accessors']
            f['scenarios'] += 1
            f['executions'] += n
            f['triggered'] += nt
            for j in range(nt):
                f['distinct'].add((repr(case), j))
            agg['executions'] += n
            agg['triggered'] += nt
            if err:
                agg['errors'].append(f'{case}: {err}')
                continue
            unc = []
            for x in viols:
                ent = classify('c12.types' if case[0] == 'type' else 'c12.accessors', x)
                if ent is None:
                    unc.append(x)
                else:
                    kk = agg['known'].setdefault(ent, dict(executions=0, scenarios=0, sample=dict(case=repr(case), clause=x['clause'], tags=x['tags'])))
                    kk['executions'] += 1
                    kk['scenarios'] += 1
            if unc:
                f['violations'] += len(unc)
                agg['n_violations'] += len(unc)
                for x in unc:
                    agg['clauses'][x['clause']] = agg['clauses'].get(x['clause'], 0) + 1
                if len(agg['violations']) < 12:
                    spec = dict(prop='C12', family='c12.types' if case[0] == 'type' else 'c12.accessors', id=repr(case), case=list(case) if case[0] == 'type' else ['seq', list(case[1])])
                    agg['violations'].append((spec, dict(clause=unc[0]['clause'], detail=unc[0]['detail'], tags=unc[0]['tags'], prefix=[], points=[], level=0)))
            if len(agg['samples']) < 3 and case[0] == 'seq' and len(case[1]) == 3:
                agg['samples'].append(dict(case='handler outcome sequence ' + repr(case[1]), accessor_calls=n, nontrivial=nt))
    for name, f in fam.items():
        agg['traces'].update((name, d) for d in f['distinct'])
    agg['families'] = fam
    agg['points'] = agg['executions']
    agg['transitions'] = agg['executions']
    agg['levels'] = {0: agg['executions']}
    agg['verdicts'] = {'done': agg['executions']}
    agg['samples'] = agg['samples'] or [dict(case=repr(cases[0]))]
    for f in fam.values():
        f['sample'] = agg['samples'][0]
    return agg


def replay_custom(body):
    case = body['scenario']['case']
    if case[0] == 'type':
        tname, i, sp = case[1], case[2], case[3]
        label, value = TYPES[tname][2][i] if i >= 0 else ('', None)
        v = check_type_case(tname, label, value, sp, *(case[4:6] if len(case) > 4 else ()))
    else:
        _, _, v = check_sequence(tuple(case[1]))
    hit = [x for x in v if x['clause'] == body['clause']]
    for x in v[:10]:
        print('  violated:', x['clause'], x['tags'], x['detail'][:300])
    if hit:
        print(f'VIOLATION property=C12 replay=(case {case})')
        return 1
    print('no violation of the recorded clause on this tree')
    return 0
