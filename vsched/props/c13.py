"""C13  History is bounded and eviction spares in-flight events.  (DESIGN.md 4, C13)"""
from __future__ import annotations

import itertools

from ..oracles import Trace, V
from ..world import make  # noqa: F401

LEVEL = 'model_checking'
RULE = ('(also: a handler bursts more children than the history holds and awaits an evicted / the newest one) ' +
        'max_history_size N in {1,2,3} (thorough: ..5); (a) every dispatch/pause sequence of main of length <= 5 (thorough 6) with more than N dispatches, handlers returning or pausing; '
        '(b) a handler bursting N+1..N+2 fire-and-forget or awaited children then pausing, main awaiting the parent; (c) a nested burst one level down, optionally on a second bus. '
        'bus.event_history is sampled at every recorder point (after every dispatch, at every handler entry/exit). all schedules <= L deviations. '
        'non-trivial = at least one eviction happened; distinct = distinct recorder traces')
ASSUMPTIONS = ['eviction-order verdicts use only statuses that are certain at the eviction instant (status of the evicted event at the next sample, status of the kept event at the previous sample)',
               'event_created_at is a strictly increasing virtual timestamp, so oldest-first has no ties']

RANK = {'pending': 0, 'started': 1, 'completed': 2}


def families(tier):
    deep = tier == 'thorough'
    out = []
    cfg = dict(bound=3 if deep else 1, cap=20000 if deep else 1500, window=0.25, max_targets=1)
    Ns = (1, 2, 3, 4, 5) if deep else (1, 2, 3)

    def add(fam, sid, N, hs, main, names=('A',), **params):
        out.append(dict(prop='C13', family=fam, id=f'{fam}/N{N}-{sid}', cfg=cfg, params=dict(N=N, **params),
                        scn=dict(buses={b: dict(hist=N) for b in names}, order=list(names), handlers=hs, main=main, actors=[], forwards=[], settle=3.0, watch_hist=True)))
        if fam != 'c13.stream' and N <= 3:
            # the same history with an external dispatcher racing against the handlers (its events land between any two steps)
            hs2 = list(hs) + ([] if any(h['pat'] == 'Y' for h in hs) else [dict(bus='A', pat='Y', name='hy', prog=[('pause',)])])
            out.append(dict(prop='C13', family=fam + '_raced', id=f'{fam}_raced/N{N}-{sid}', cfg=dict(cfg, bound=2, cap=3000 if not deep else 20000), params=dict(N=N, **params),
                            scn=dict(buses={b: dict(hist=N) for b in names}, order=list(names), handlers=hs2, main=main,
                                     actors=[[('pause',), ('disp', 'A', 'Y1', 'ff'), ('pause',), ('disp', 'A', 'Y2', 'ff')]], forwards=[], settle=3.0, watch_hist=True)))

    maxlen = 6 if deep else 5
    for N in Ns:
        if N <= 3:
            for ln in range(N + 1, maxlen + 1):
                for seq in itertools.product('DW', repeat=ln):
                    if seq.count('D') <= N or seq[0] == 'W' or seq[-1] == 'W':
                        continue
                    for hshape in ('ret', 'pause', 'some_without_handler'):
                        i = 0
                        main = []
                        for c in seq:
                            if c == 'D':
                                i += 1
                                # 'some_without_handler': every other event has no handler at all (it completes with no results)
                                main.append(('disp', 'A', f'Z{i}' if (hshape == 'some_without_handler' and i % 2 == 1) else f'X{i}', 'ff'))
                            else:
                                main.append(('pause',))
                        hs = [dict(bus='A', pat='X', name='hx', prog=[('pause',), ('ret', 1)] if hshape in ('pause', 'some_without_handler') else [('ret', 1)])]
                        add('c13.stream', f'{"".join(seq)}-{hshape}', N, hs, main)
        for extra, mode, cshape, then in itertools.product((1, 2), ('ff', 'await', 'mixed'), ('ret', 'pause'), ('pause', 'ret')):
            k = N + extra
            hp = []
            for i in range(k):
                m = mode if mode != 'mixed' else ('await' if i % 2 == 0 else 'ff')
                hp.append(('disp', 'A', f'C{i + 1}', m))
            if then == 'pause':
                hp.append(('pause',))
            hs = [dict(bus='A', pat='P', name='hp', prog=hp), dict(bus='A', pat='C', name='hc', prog=[('pause',)] if cshape == 'pause' else [('ret', 1)])]
            add('c13.burst', f'k{k}-{mode}-{cshape}-{then}', N, hs, [('disp', 'A', 'P', 'await'), ('disp', 'A', 'X', 'await')] , shape='burst')
            hs[-1:] = [dict(bus='A', pat='C', name='hc', prog=[('pause',)] if cshape == 'pause' else [('ret', 1)]), dict(bus='A', pat='X', name='hx', prog=[('ret', 0)])]
        for extra, gbus in itertools.product((1, 2), 'AB'):
            k = N + extra
            names = ('A', 'B') if gbus == 'B' else ('A',)
            hc = [('disp', gbus, f'G{i + 1}', 'ff') for i in range(k)] + [('pause',)]
            hs = [dict(bus='A', pat='P', name='hp', prog=[('disp', 'A', 'C', 'await'), ('pause',)]), dict(bus='A', pat='C', name='hc', prog=hc),
                  dict(bus=gbus, pat='G', name='hg', prog=[('pause',)]), dict(bus='A', pat='X', name='hx', prog=[('ret', 0)])]
            add('c13.nested', f'k{k}-g{gbus}', N, hs, [('disp', 'A', 'P', 'await'), ('disp', 'A', 'X', 'await')], names=names, shape='nested')
    # a burst that overruns the 50-slot queue of a bus with a small history (the surplus dispatches are refused with QueueFull): the bound holds after the refused
    # dispatches as well, and a refused event does not sit in the history
    for N in Ns:
        if N > 3:
            continue
        for src in ('main', 'handler'):
            hs = [dict(bus='A', pat='Z', name='hz', prog=[('ret', 0)], kind='sync'), dict(bus='A', pat='P', name='hp', prog=[('burst', 'A', 'Z', 55), ('pause',)])]
            main = ([('burst', 'A', 'Z', 55)] if src == 'main' else [('disp', 'A', 'P', 'ff')]) + [('pause',), ('idle', 'A')]
            out.append(dict(prop='C13', family='c13.burst_past_the_queue_capacity', id=f'c13.qfull/N{N}-{src}', cfg=dict(cfg, max_points=300), params=dict(N=N, shape='qfull'),
                            scn=dict(buses={'A': dict(hist=N)}, order=['A'], handlers=hs, main=main, actors=[], forwards=[], settle=3.0, watch_hist=True, no_watch=False)))
    # an event that completed on another bus is dispatched to the bounded bus as well and is IN FLIGHT there when the history overflows, next to younger events that
    # are genuinely complete: the one in flight is not the one to go
    for N in Ns:
        if N > 3:
            continue
        hs = [dict(bus='A', pat='P', name='hpA', prog=[('ret', 1)]), dict(bus='B', pat='P', name='hpB', prog=[('pause',), ('ret', 2)]), dict(bus='B', pat='Z', name='hzB', prog=[('ret', 0)], kind='sync'),
              dict(bus='B', pat='X', name='hxB', prog=[('ret', 0)])]
        main = [('disp', 'A', 'P', 'await')] + [('disp', 'B', f'Z{i}', 'await') for i in range(N - 1)] + [('redisp', 'B', 'P'), ('pause',)] + [('disp', 'B', f'Z{N + i}', 'ff') for i in range(2)] + [('pause',), ('idle', 'B')]
        out.append(dict(prop='C13', family='c13.completed_elsewhere_in_flight_here', id=f'c13.completed_elsewhere/N{N}', cfg=dict(cfg, bound=2), params=dict(N=N, shape='elsewhere', bounded=['B']),
                        scn=dict(buses={'A': dict(hist=None), 'B': dict(hist=N)}, order=['A', 'B'], handlers=hs, main=main, actors=[], forwards=[], settle=3.0, watch_hist=True)))
    # a handler dispatches more children than the history holds in one burst (the oldest are evicted from history while still QUEUED), then awaits
    # one of the evicted ones / the newest one: what can be awaited must not depend on what the history still shows
    for N in Ns:
        for k, which in itertools.product((N + 1, N + 3), ('first', 'second', 'last')):
            idx = {'first': 1, 'second': 2, 'last': k}[which]
            hs = [dict(bus='A', pat='P', name='hp', prog=[('burst', 'A', 'Z', k), ('await_named', f'Z{idx}<'), ('pause',)]), dict(bus='A', pat='Z', name='hz', prog=[('pause',)])]
            add('c13.await_evicted_child', f'k{k}-{which}', N, hs, [('disp', 'A', 'P', 'await'), ('disp', 'A', 'X', 'await')], shape='await_evicted')
    # chains of 3-4 nested fire-and-forget dispatches (root -> mid -> leaf ...), with N filler siblings per level so that every ancestor can be evicted while in flight
    for N in Ns:
        for depth, fill, lshape in itertools.product((3, 4), (0, 1), ('ret', 'pause')):
            if N > 3 and depth == 4:
                continue
            chain = ['P', 'C', 'G', 'Q'][:depth]
            hs = []
            for i, t in enumerate(chain):
                prog = []
                if i + 1 < depth:
                    prog += [('disp', 'A', chain[i + 1], 'ff')] + [('disp', 'A', f'Z{i}{j}', 'ff') for j in range(N * fill)]
                prog += [('pause',)] if (lshape == 'pause' or i + 1 < depth) else [('ret', 1)]
                hs.append(dict(bus='A', pat=t, name='h' + t, prog=prog))
            add('c13.chain', f'd{depth}-f{fill}-{lshape}', N, hs, [('disp', 'A', 'P', 'await'), ('disp', 'A', 'X', 'await')], shape='chain')
    return out


def trigger(spec, res):
    tr = Trace(res)
    for bus, hs in tr.hists.items():
        seen = set()
        for seq, h in hs:
            now = {n for n, _ in h}
            if seen - now:
                return True
            seen |= now
    return False


def oracle(spec, res):
    tr = Trace(res)
    out = []
    N = spec['params']['N']
    v = res['verdict'][0]
    if v in ('hang', 'deadlock', 'livelock'):
        pend = [a for a in tr.awaits if a['end'] is None]
        evicted_inflight = any(True for a in pend)
        out.append(V('await_never_returns_after_eviction', f'{res["verdict"]}; pending awaits {[(a["who"], a["ev"]) for a in pend]}', N=min(N, 3)))
    if v == 'raised':
        out.append(V('main_raised', str(res['verdict'])))
    # an await made inside a handler that came back normally came back with the awaited event complete - evicted from history or not
    for a in tr.awaits:
        if a['who'] in tr.who_info and a['kind'] == 'await-end':
            st = tr.state_at(a['ev'], a['end'])
            if st is not None and not Trace.st_complete(st):
                out.append(V('await_of_evicted_event_returned_before_it_was_complete', f'{a["who"]} awaited {a["ev"]}: returned at seq {a["end"]} with {st}', N=min(N, 3)))
    order = {nm: i for i, nm in enumerate(res['final']['events'])}  # creation order (dict insertion order of world.events)
    for bus, hs in tr.hists.items():
        prev = ()
        prev_seq = 0
        for seq, h in hs:
            if len(h) > N:
                out.append(V('history_exceeds_bound', f'bus {bus} at seq {seq}: {len(h)} > {N}: {h}'))
            pre = dict(prev)
            post = dict(h)
            evicted = [x for x in pre if x not in post]
            for x in evicted:
                sx = tr.state_at(x, seq)
                rx_post = RANK.get(sx[0] if sx else 'completed', 2)
                # the harness's own knowledge, whatever status the library reports: a handler of x on THIS bus has started and not finished
                running_here = any(en[2] == bus and en[4] == x and en[0] < seq and not any(ex[2] == bus and ex[3] == en[3] and ex[4] == x and en[0] < ex[0] < seq for ex in tr.exits) for en in tr.enters)
                if running_here:
                    kept_done = [y for y in post if y in pre and RANK[pre[y]] == 2 and not any(en[2] == bus and en[4] == y and en[0] < seq and not any(ex[2] == bus and ex[3] == en[3] and ex[4] == y and ex[0] < seq for ex in tr.exits) for en in tr.enters)]
                    if kept_done:
                        out.append(V('evicted_in_flight_event_while_more_evictable_remained', f'bus {bus} seq {prev_seq}->{seq}: evicted {x}, whose handler on {bus} is running, but kept completed {kept_done}'))
                for y, sy_post in post.items():
                    if y not in pre:
                        continue
                    ry_pre = RANK[pre[y]]
                    if rx_post < ry_pre:
                        out.append(V('evicted_in_flight_event_while_more_evictable_remained',
                                     f'bus {bus} seq {prev_seq}->{seq}: evicted {x} ({sx[0] if sx else "?"}) but kept {y} (already {pre[y]})'))
                    elif RANK[pre[x]] == 2 and ry_pre == 2 and order.get(x, 0) > order.get(y, 0):
                        out.append(V('eviction_not_oldest_first', f'bus {bus} seq {prev_seq}->{seq}: evicted completed {x} but kept older completed {y}'))
            prev, prev_seq = h, seq
    if v == 'done':
        accepted = {(bus, ev) for _, bus, ev, _, _ in tr.accepted()}
        cnt = {}
        for en in tr.enters:
            cnt[(en[2], en[3], en[4])] = cnt.get((en[2], en[3], en[4]), 0) + 1
        for (bus, ev) in accepted:
            for h in spec['scn']['handlers']:
                if h['bus'] == bus and h['pat'] == ev[0]:
                    n = cnt.get((bus, h['name'], ev), 0)
                    if n != 1:
                        out.append(V('eviction_changed_processing', f'{bus}.{h["name"]} ran {n} times for {ev}'))
        acc_evs = {ev for (_, ev) in accepted}
        for ev, fe in res['final']['events'].items():
            if ev not in acc_evs:
                continue  # every dispatch of it was refused (queue full): it was never this bus's to complete
            if fe['status'] != 'completed' or not fe['sig']:
                out.append(V('event_never_completes_after_eviction', f'{ev}: {fe["status"]} sig={fe["sig"]}', N=min(N, 3)))
    return out[:8]
