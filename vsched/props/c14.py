"""C14  Dispatch accepts or rejects atomically; accepted events are never dropped.  (DESIGN.md 4, C14)"""
from __future__ import annotations

import itertools

from ..oracles import Trace, V
from ..world import HBus, World, X as _X


class NoLoopWorld(World):
    """dispatch() called from plain synchronous code with no running event loop: it must raise, not drop the event silently"""

    def run(self):
        from asyncio import events
        import warnings
        outcome = {}
        # the engine's loop exists but is NOT running here: get_running_loop() fails exactly as in plain sync code
        with warnings.catch_warnings():
            warnings.simplefilter('ignore')
            for variant in ('fresh_bus', 'bus_used_before', 'event_used_before'):
                bus = HBus(name='N' + variant[0].upper(), max_history_size=self.scn['buses']['A'].get('hist', 50))
                self.keep.append(bus)
                e = _X(name='x')
                if variant == 'event_used_before':
                    # the EVENT has been through another bus while a loop was running (it was awaited, it is complete); now plain code hands it to a fresh bus
                    other = HBus(name='NO', max_history_size=50)
                    self.keep.append(other)

                    async def used():
                        await other.dispatch(e)
                        await other.stop()
                    self.loop.run_until_complete(used())
                    events._set_running_loop(None)
                if variant == 'bus_used_before':
                    async def warm():
                        e0 = bus.dispatch(_X(name='warm'))
                        await e0
                        await bus.stop()
                    self.loop.run_until_complete(warm())
                    events._set_running_loop(None)
                try:
                    r = bus.dispatch(e)
                    outcome[variant] = ('returned', r is e, e.event_id in bus.event_history, [p for p in e.event_path if p == bus.name], bus.event_queue.qsize() if bus.event_queue else None)
                except RuntimeError as ex:
                    outcome[variant] = ('raised', 'RuntimeError', e.event_id in bus.event_history, [p for p in e.event_path if p == bus.name], None)
                except BaseException as ex:  # noqa: BLE001
                    outcome[variant] = ('raised', type(ex).__name__, e.event_id in bus.event_history, [p for p in e.event_path if p == bus.name], None)
        self.extra['noloop'] = outcome
        self.rec('noloop', tuple(sorted((k, v[0], v[1]) for k, v in outcome.items())))
        return ('done', None)


def make(spec, loop):
    return NoLoopWorld(spec, loop) if spec.get('mode') == 'noloop' else World(spec, loop)

LEVEL = 'model_checking'
RULE = ('bursts of K in {49,50,51,99,100,120} dispatches issued in one synchronous stretch from main, from inside an async handler and from inside a sync handler; '
        'max_history_size in {None, 5, 50}; with and without an existing backlog behind a paused handler; rejected events re-offered after the backlog drained; finally '
        'wait_until_idle(); plus the grammar-generated corpus (vsched/gen.py) with a 0.5 s handler time-out on the root event (accepted events are never lost, whatever the time-out interrupts). all schedules <= L deviations. non-trivial = at least one dispatch was rejected or the burst reached the queue capacity; distinct = distinct recorder traces')
ASSUMPTIONS = ['event-state watching is off in these large scenarios; verdicts use dispatch records, handler entry records and the final snapshot']


def families(tier):
    deep = tier == 'thorough'
    out = []
    cfg = dict(bound=2 if deep else 1, cap=2000 if deep else 150, window=0.25, max_targets=1, horizon=25.0, busy=deep)
    Ks = (49, 50, 51, 99, 100, 120) if deep else (49, 50, 51, 100, 120)
    for K, hist, src, backlog, reoffer in itertools.product(Ks, (None, 5, 50), ('main', 'async', 'sync'), (False, True), (False, True)):
        if hist is None and K not in (51, 120):
            continue
        if not deep and reoffer and K not in (51, 120):
            continue
        if not deep and backlog and K in (49, 99):
            continue
        hs = [dict(bus='A', pat='X', name='hx', prog=[('ret', 1)], kind='sync'), dict(bus='A', pat='Y', name='hy', prog=[('pause',)])]
        main = []
        if backlog:
            main += [('disp', 'A', 'Y1', 'ff'), ('disp', 'A', 'Y2', 'ff'), ('disp', 'A', 'Y3', 'ff')]
        if src == 'main':
            main += [('burst', 'A', 'X', K)]
        else:
            hs.append(dict(bus='A', pat='P', name='hp', prog=[('burst', 'A', 'X', K)] + ([('pause',)] if src == 'async' else []), kind=src))
            main += [('disp', 'A', 'P', 'ff')]
        main += [('pause',)]
        if reoffer:
            main += [('idle', 'A'), ('reoffer', 'A')]
        main += [('idle', 'A')]
        out.append(dict(prop='C14', family='c14.burst.' + ('in_handler' if src != 'main' else 'main'), id=f'c14/K{K}-h{hist}-{src}-b{int(backlog)}-r{int(reoffer)}', cfg=cfg,
                        params=dict(K=K, hist=hist, src=src, reoffer=reoffer),
                        scn=dict(buses={'A': dict(hist=hist)}, order=['A'], handlers=hs, main=main, actors=[], forwards=[], settle=3.0, no_watch=True)))
    for hist in (50, None, 5):
        out.append(dict(prop='C14', family='c14.no_running_loop', id=f'c14/noloop-h{hist}', cfg=dict(bound=0, cap=2), mode='noloop', params=dict(K=0, hist=hist, src='sync', reoffer=False),
                        scn=dict(buses={'A': dict(hist=hist)}, order=['A'], handlers=[], main=[], actors=[], forwards=[])))
    # a dispatch rejected by bus B must not leave B in the event's path: later the same object reaches B through forwarding from A and must be processed there
    for hist, fill in itertools.product((5, 50), ('main',)):
        hs = [dict(bus='B', pat='X', name='hxB', prog=[('ret', 1)], kind='sync'), dict(bus='B', pat='Y', name='hyB', prog=[('pause',)]),
              dict(bus='B', pat='Q', name='hqB', prog=[('ret', 2)]), dict(bus='A', pat='Q', name='hqA', prog=[('ret', 3)])]
        main = [('disp', 'B', 'Y1', 'ff'), ('burst', 'B', 'X', 60), ('disp', 'B', 'Q', 'ff'), ('pause',), ('idle', 'B'), ('redisp', 'A', 'Q'), ('idle', 'A'), ('idle', 'B')]
        out.append(dict(prop='C14', family='c14.reject_then_forward', id=f'c14/rejfwd-h{hist}', cfg=cfg, params=dict(K=60, hist=hist, src='main', reoffer=False, expect_forward='Q'),
                        scn=dict(buses={'A': dict(hist=hist), 'B': dict(hist=hist)}, order=['A', 'B'], handlers=hs, main=main, actors=[], forwards=[('A', 'B')], settle=3.0, no_watch=True)))
    # a second bus with a history smaller than its backlog (pending events are evicted from history while still queued) waits for the lock held by a handler of the first bus
    for histB, k, hshape in itertools.product((1, 2), (3, 5), ('pause', 'aw_child_B')):
        hp = [('pause',), ('pause',)] if hshape == 'pause' else [('disp', 'B', 'C', 'await'), ('pause',)]
        hs = [dict(bus='A', pat='P', name='hp', prog=hp), dict(bus='B', pat='X', name='hxB', prog=[('ret', 1)], kind='sync'), dict(bus='B', pat='C', name='hcB', prog=[('pause',)]),
              dict(bus='B', pat='Y', name='hyB', prog=[('ret', 0)])]
        main = [('disp', 'B', 'Y0', 'await'), ('disp', 'A', 'P', 'ff'), ('pause',), ('burst', 'B', 'X', k), ('pause',), ('idle', 'A'), ('idle', 'B')]
        for order in (['A', 'B'], ['B', 'A']):
            out.append(dict(prop='C14', family='c14.evicted_while_queued', id=f'c14/evq-h{histB}-k{k}-{hshape}-o{"".join(order)}', cfg=dict(cfg, busy=True, bound=2, cap=1500),
                            params=dict(K=k, hist=histB, src='main', reoffer=False),
                            scn=dict(buses={'A': {}, 'B': dict(hist=histB)}, order=order, handlers=hs, main=main, actors=[], forwards=[], settle=3.0, no_watch=True)))
    # the capacity boundary raced by an external dispatcher: its dispatches land between any two steps of the handlers (busy choice points on)
    for hist, src in itertools.product((5, 50), ('main', 'async')):
        hs = [dict(bus='A', pat='X', name='hx', prog=[('ret', 1)], kind='sync'), dict(bus='A', pat='Y', name='hy', prog=[('pause',)])]
        if src == 'main':
            main = [('burst', 'A', 'X', 48), ('pause',), ('burst', 'A', 'X', 4), ('pause',), ('idle', 'A'), ('reoffer', 'A'), ('idle', 'A')]
        else:
            hs.append(dict(bus='A', pat='P', name='hp', prog=[('burst', 'A', 'X', 47), ('pause',), ('burst', 'A', 'X', 4), ('pause',)]))
            main = [('disp', 'A', 'P', 'ff'), ('pause',), ('idle', 'A'), ('reoffer', 'A'), ('idle', 'A')]
        actors = [[('disp', 'A', 'Y1', 'ff'), ('pause',), ('disp', 'A', 'Y2', 'ff'), ('disp', 'A', 'Y3', 'ff')]]
        out.append(dict(prop='C14', family='c14.burst.raced', id=f'c14/raced-h{hist}-{src}', cfg=dict(bound=2 if deep else 1, cap=6000 if deep else 700, window=0.25, max_targets=1, busy=True),
                        params=dict(K=52, hist=hist, src=src, reoffer=True),
                        scn=dict(buses={'A': dict(hist=hist)}, order=['A'], handlers=hs, main=main, actors=actors, forwards=[], settle=3.0, no_watch=True)))
    # accepted events of a class whose instances are falsy (an empty batch): they go through the queue like any other
    for n, hshape in itertools.product((1, 3), ('ret', 'pause')):
        hs = [dict(bus='A', pat='E', name='he', prog=[('ret', 1)] if hshape == 'ret' else [('pause',), ('ret', 1)]), dict(bus='A', pat='X', name='hx', prog=[('ret', 0)], kind='sync'),
              dict(bus='A', pat='P', name='hp', prog=[('disp', 'A', 'E', 'ff'), ('ret', 2)])]
        main = [('disp', 'A', 'E', 'ff')] * 1 + [('disp', 'A', 'X1', 'ff'), ('disp', 'A', 'P', 'ff')] + [('disp', 'A', f'X{i + 2}', 'ff') for i in range(n)] + [('pause',), ('idle', 'A')]
        out.append(dict(prop='C14', family='c14.falsy_event_through_the_queue', id=f'c14/falsy-n{n}-{hshape}', cfg=cfg, params=dict(K=n, hist=50, src='main', reoffer=False, revived=True),
                        scn=dict(buses={'A': {}}, order=['A'], handlers=hs, main=main, actors=[], forwards=[], settle=3.0, no_watch=True)))
    # the bus's background task is cancelled from outside without stop() (a supervisor cancelling every task) while events it had accepted are still queued; the
    # library revives such a bus on the next dispatch() / wait_until_idle(): what it had accepted is still processed then
    for hshape, nq, revive, gap in itertools.product(('pause', 'pause_pause'), (1, 3), ('dispatch', 'idle'), (0.05, 0.3)):
        hs = [dict(bus='A', pat='P', name='hp', prog=[('pause',)] * (2 if hshape == 'pause_pause' else 1) + [('ret', 1)]), dict(bus='A', pat='X', name='hx', prog=[('ret', 0)], kind='sync'),
              dict(bus='A', pat='Y', name='hy', prog=[('ret', 0)])]
        main = [('disp', 'A', 'P', 'ff')] + [('disp', 'A', f'X{i + 1}', 'ff') for i in range(nq)] + [('pause',)] + [('cancel_loop', 'A'), ('sleep', gap)]  # (the cancelled task is given time to unwind completely: see observation O2 in DESIGN.md for the window before that)
        main += ([('disp', 'A', 'Y1', 'ff')] if revive == 'dispatch' else []) + [('idle', 'A')]
        out.append(dict(prop='C14', family='c14.background_task_cancelled_then_revived', id=f'c14/revive-{hshape}-q{nq}-{revive}-g{gap}', cfg=cfg, params=dict(K=nq, hist=50, src='main', reoffer=False, revived=True),
                        scn=dict(buses={'A': {}}, order=['A'], handlers=hs, main=main, actors=[], forwards=[], settle=3.0, no_watch=True)))
    # the grammar-generated corpus shared by the bus properties (vsched/gen.py) with a 0.5 s handler time-out on the root event: whatever a time-out
    # interrupts (a handler waiting for its turn to process an awaited child inline, a sibling, the child itself), every event a dispatch() ACCEPTED
    # still ends completed, and wait_until_idle() returns
    from .. import gen
    out += gen.family('C14', tier, params=dict(K=0, hist=50, src='async', reoffer=False), timeouts=(0.5,), main_mode='idle', thorough_light=True)
    return out


def trigger(spec, res):
    if spec.get('mode') == 'noloop':
        return True
    if spec['family'].startswith('c14.generated'):
        return any(r[2] == 'dispatch' and r[3] != 'main' and r[6] == 'ok' for r in res['log'])
    n_rej = sum(1 for r in res['log'] if r[2] == 'dispatch' and r[6].startswith('raised'))
    if spec['family'].endswith('evicted_while_queued'):
        return (spec['params']['hist'] or 99) < spec['params']['K']  # the backlog exceeds the history: pending events get evicted while queued
    return n_rej > 0 or spec['params']['K'] >= 50 or bool(spec['params'].get('revived'))


def oracle(spec, res):
    if spec['params'].get('revived') and spec['family'].endswith('cancelled_then_revived'):
        # the family is about a cancellation that arrives while a handler is IN FLIGHT; schedules in which the outsider cancels the task at another point (an event
        # dequeued but its handler not yet started, ...) are the windows of observation O2 (DESIGN.md) and are not judged
        cl = next((r[0] for r in res['log'] if r[2] == 'cancel-loop'), None)
        started = any(r[2] == 'enter' and r[4] == 'hp' and cl is not None and r[0] < cl for r in res['log'])
        finished = any(r[2] == 'exit' and r[4] == 'hp' and cl is not None and r[0] < cl for r in res['log'])
        if not started or finished:
            return []
    if spec.get('mode') == 'noloop':
        out = []
        for variant, o in res['extra'].get('noloop', {}).items():
            if o[0] == 'returned':
                out.append(V('dispatch_without_running_loop_did_not_raise', f'{variant}: dispatch() returned (same object: {o[1]}), in history: {o[2]}, queued: {o[4]}'))
            elif o[1] != 'RuntimeError':
                out.append(V('dispatch_without_running_loop_raised_unexpected', f'{variant}: {o[1]}'))
            if o[2] or o[3]:
                out.append(V('rejected_dispatch_left_a_trace', f'{variant}: in history {o[2]}, event_path {o[3]}'))
        if not res['extra'].get('noloop'):
            out.append(V('harness_no_result', 'noloop world produced nothing'))
        return out
    tr = Trace(res)
    out = []
    v = res['verdict'][0]
    src = spec['params']['src']
    in_handler = src != 'main'
    if v in ('hang', 'deadlock', 'livelock'):
        out.append(V('wait_until_idle_never_returns', f'{res["verdict"]} idles={[(d["bus"], d["end"]) for d in tr.idles]}', in_handler=in_handler))
        # name what was lost: accepted, still pending at the horizon, and sitting in no bus's queue (nobody will ever process it)
        queued = {n for b in res['final'].get('buses', {}).values() for n in b.get('queue', [])}
        acc = {d[4] for d in tr.dispatches if d[5] == 'ok'}
        lost = [ev for ev, fe in res['final'].get('events', {}).items() if ev in acc and fe['status'] == 'pending' and ev not in queued and not fe['results']]
        if lost and any('queue' in b for b in res['final'].get('buses', {}).values()):
            out.append(V('accepted_event_in_no_queue_and_never_processed', f'{lost[:4]}', in_handler=in_handler))
    if v == 'raised':
        out.append(V('main_raised', str(res['verdict'])))
    last = {}
    for d in tr.dispatches:
        last.setdefault(d[4], []).append(d[5])
        if d[5] not in ('ok',) and not d[5].startswith('raised:'):
            out.append(V('dispatch_neither_returned_nor_raised', str(d)))
    fin = res['final']
    cnt = {}
    for en in tr.enters:
        cnt[en[4]] = cnt.get(en[4], 0) + 1
    children = {}
    for pe, fe in fin['events'].items():
        for r in fe['results']:
            for c in r['children']:
                children.setdefault(c, []).append(pe)
    hist = {n for b in fin['buses'].values() for n, _ in b['hist']}
    for ev, outcomes in last.items():
        accepted = 'ok' in outcomes
        if not accepted:
            if ev in hist:
                out.append(V('rejected_event_in_history', ev, in_handler=in_handler))
            if ev in children:
                out.append(V('rejected_event_recorded_as_child', f'{ev} child of {children[ev]}', in_handler=in_handler))
            if cnt.get(ev, 0):
                out.append(V('rejected_event_was_processed', ev, in_handler=in_handler))
        elif v == 'done':
            n = cnt.get(ev, 0)
            if n != 1 and ev[0] in 'XYPE' and not spec['family'].startswith('c14.generated'):  # (generated corpus: several handlers per event, and a parent's time-out legitimately cancels a child before it starts)
                out.append(V('accepted_event_dropped' if n == 0 else 'accepted_event_handled_twice', f'{ev}: handled {n} times; dispatch outcomes {outcomes}', in_handler=in_handler))
    # per (bus, event): a rejection must not leave the bus in event_path (a later forward into that bus would be skipped as a 'loop')
    per_bus = {}
    for d in tr.dispatches:
        per_bus.setdefault((d[3], d[4]), []).append(d[5])
    for (bus, ev), outcomes in per_bus.items():
        if 'ok' not in outcomes and bus in fin['events'].get(ev, {}).get('path', []):
            out.append(V('rejected_dispatch_left_bus_in_event_path', f'{ev}: every dispatch to {bus} was rejected ({outcomes[0]}) but event_path is {fin["events"][ev]["path"]}', in_handler=in_handler))
    ef = spec['params'].get('expect_forward')
    if ef and v == 'done':
        if not any(en[2] == 'B' and en[4] == ef for en in tr.enters):
            out.append(V('event_not_forwarded_to_bus_that_rejected_it_earlier', f'{ef} was dispatched to A (which forwards to B) after B had rejected it once: B never processed it; path {fin["events"].get(ef, {}).get("path")}'))
    if v == 'done':
        for ev, fe in fin['events'].items():
            if 'ok' in last.get(ev, []) and (fe['status'] != 'completed' or not fe['sig']):
                out.append(V('accepted_event_never_completes', f'{ev}: {fe["status"]} sig={fe["sig"]} children incomplete: '
                             f'{[c for r in fe["results"] for c in r["children"] if fin["events"].get(c, {}).get("status") != "completed"][:3]}', in_handler=in_handler))
    return out[:6]
