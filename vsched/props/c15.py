"""C15  wait_until_idle is sound and live.  (DESIGN.md 4, C15)"""
from __future__ import annotations

import itertools

from ..oracles import Trace, V
from ..world import make  # noqa: F401

LEVEL = 'model_checking'
RULE = ('main calls wait_until_idle() before / between / after dispatches while an external actor streams top-level events (its last wait stallable), handlers pause, dispatch nested '
        'children (fire-and-forget / awaited, own or other bus); fault prefixes: raising handler (also a handler ending in CancelledError although nobody cancels the bus), handler timeout (0.5 s, also while awaiting a child), rejected dispatches (burst past '
        'the queue capacity inside a handler), eviction (max_history_size 1-2), recursion-guard trip (self-recursion depth 3). The run loop 0.1 s poll is a timer target, so the idle flag '
        'is set/cleared on either side of each dispatch. all schedules <= L deviations; both bus orders. non-trivial = the call began while the bus had work or work arrived during the '
        'call; distinct = distinct recorder traces')
ASSUMPTIONS = ['"accepted before the call" is decided on harness dispatch records with global sequence numbers',
               'liveness: a call still pending at the 25 s virtual horizon although every non-stallable environment wait has completed counts as never returning']


def families(tier):
    deep = tier == 'thorough'
    out = []
    cfg = dict(bound=3 if deep else 2, cap=40000 if deep else 1500, window=0.7, max_targets=3)
    pshapes = {
        'pause': ([('pause',)], {}), 'ret': ([('ret', 1)], {}), 'raise': ([('pause',), ('raise', 'ValueError')], {}),
        'c_ff': ([('disp', 'A', 'C', 'ff')], {}), 'c_aw': ([('disp', 'A', 'C', 'await')], {}), 'c_ff_B': ([('disp', 'B', 'C', 'ff'), ('pause',)], {}),
        'c_aw_B': ([('disp', 'B', 'C', 'await')], {}), 'timeout': ([('pause',), ('pause',)], {'timeout': 0.5}), 'timeout_aw': ([('disp', 'A', 'C', 'await')], {'timeout': 0.5}),
        'raise_cancelled': ([('pause',), ('raise', 'CancelledError')], {}), 'raise_cancelled_now': ([('raise', 'CancelledError')], {}),  # (nobody cancels the bus: what the handler awaited was cancelled)
        'recurse': None, 'reject': ([('burst', 'A', 'Y', 53), ('pause',)], {}), 'evict': ([('disp', 'A', 'C', 'ff'), ('disp', 'A', 'C2', 'ff'), ('disp', 'A', 'C3', 'ff'), ('pause',)], {}),
    }
    for ps, when, actor, tmo in itertools.product(pshapes, ['after', 'paused', 'before', 'twice'], ['none', 'x', 'x_stall_x'], (None, 1.0)):
        if tmo is not None and not deep:
            continue
        if ps in ('reject',) and (when not in ('after', 'paused') or actor == 'x_stall_x'):
            continue
        if not deep and ps in ('ret', 'c_aw_B') and when in ('before', 'twice'):
            continue
        hist = 2 if ps == 'evict' else (5 if ps == 'reject' else 50)
        names = ['A', 'B'] if ps.endswith('_B') else ['A']
        hs = []
        if ps == 'recurse':
            hs.append(dict(bus='A', pat='R', name='hr', prog=[('recurse', 'A', 'ff', 3)]))
            first = ('disp', 'A', 'R', 'ff')
        else:
            prog, opts = pshapes[ps]
            hs.append(dict(bus='A', pat='P', name='hp', prog=prog))
            first = ('disp', 'A', 'P', 'ff', opts)
        for b in names:
            hs.append(dict(bus=b, pat='C', name='hc' + b, prog=[('pause',)]))
            hs.append(dict(bus=b, pat='X', name='hx' + b, prog=[('pause',)]))
        hs.append(dict(bus='A', pat='Y', name='hy', prog=[('ret', 0)], kind='sync'))
        idle = ('idle', 'A') if tmo is None else ('idle', 'A', tmo)
        main = {'after': [first, idle], 'paused': [first, ('pause',), idle], 'before': [idle, first, idle], 'twice': [first, idle, ('disp', 'A', 'X9', 'ff'), idle]}[when]
        if len(names) > 1:
            main.append(('idle', 'B'))
        actors = {'none': [], 'x': [[('disp', 'A', 'X1', 'ff')]], 'x_stall_x': [[('disp', 'A', 'X1', 'ff'), ('pause', 'stall'), ('disp', 'A', 'X2', 'ff')]]}[actor]
        for order in ([names] if len(names) == 1 else [names, names[::-1]]):
            out.append(dict(prop='C15', family='c15.idle.' + ('fault' if ps in ('raise', 'raise_cancelled', 'raise_cancelled_now', 'timeout', 'timeout_aw', 'recurse', 'reject', 'evict') else 'plain'),
                            id=f'c15/{ps}-{when}-{actor}-t{tmo}-o{"".join(order)}', cfg=cfg, params=dict(ps=ps, when=when, tmo=tmo),
                            scn=dict(buses={b: dict(hist=hist) for b in names}, order=order, handlers=hs, main=main, actors=actors, forwards=[], settle=2.0,
                                     no_watch=(ps == 'reject'))))
    # a handler of A processes its awaited child on B inline (B's run loop never sees it) while B's history is tiny: is B 'idle'?
    for hist, nest, who in itertools.product((1, 2, 50), (False, True), ('main', 'actor')):
        hc = ([('disp', 'B', 'G', 'await')] if nest else []) + [('pause',), ('pause',)]
        hs = [dict(bus='A', pat='P', name='hp', prog=[('disp', 'B', 'C', 'await')]), dict(bus='B', pat='C', name='hcB', prog=hc), dict(bus='B', pat='G', name='hgB', prog=[('ret', 1)]),
              dict(bus='B', pat='X', name='hxB', prog=[('ret', 0)])]
        if who == 'main':
            main, actors = [('disp', 'A', 'P', 'ff'), ('pause',), ('idle', 'B'), ('idle', 'A')], []
        else:
            main, actors = [('disp', 'A', 'P', 'ff'), ('pause',), ('pause',), ('idle', 'A')], [[('pause',), ('idle', 'B'), ('disp', 'B', 'X', 'ff'), ('idle', 'B')]]
        for order in (['A', 'B'], ['B', 'A']):
            out.append(dict(prop='C15', family='c15.idle.inline_other_bus', id=f'c15/inline-h{hist}-n{int(nest)}-{who}-o{"".join(order)}', cfg=cfg, params=dict(ps='inline_xbus', when='paused', tmo=None),
                            scn=dict(buses={'A': {}, 'B': dict(hist=hist)}, order=order, handlers=hs, main=main, actors=actors, forwards=[], settle=2.0)))
    # the bus has gone idle (flag set by a poll); wait_until_idle() is running its join / flag / re-check sequence while an external dispatcher lands a fresh event in between
    for warm, n_actor, hshape in itertools.product(('await', 'ff_sleep'), (1, 2), ('pause', 'ret')):
        hs = [dict(bus='A', pat='X', name='hxA', prog=[('pause',)] if hshape == 'pause' else [('ret', 0)])]
        main = ([('disp', 'A', 'X0', 'await'), ('sleep', 0.25)] if warm == 'await' else [('disp', 'A', 'X0', 'ff'), ('sleep', 0.35)]) + [('idle', 'A'), ('pause',), ('idle', 'A')]
        actor = [('sleep', 0.2), ('pause',), ('disp', 'A', 'X1', 'ff')] + ([('pause',), ('disp', 'A', 'X2', 'ff')] if n_actor == 2 else [('redisp', 'A', 'X0'), ('pause',), ('redisp', 'A', 'X0')])
        out.append(dict(prop='C15', family='c15.idle.race_after_idle', id=f'c15/race-{warm}-a{n_actor}-{hshape}', cfg=dict(cfg, bound=3 if not deep else 4, cap=6000 if not deep else 60000),
                        params=dict(ps='race', when='after', tmo=None),
                        scn=dict(buses={'A': {}}, order=['A'], handlers=hs, main=main, actors=[actor], forwards=[], settle=2.0)))
    # a handler of A (0.5 s time-out) awaits a child on the parallel_handlers bus B; both handlers of the child are running when the time-out interrupts the child, and
    # one of them needs 0.3 s to clean up after being cancelled: B is idle only when that handler has really stopped
    for which_slow, when in itertools.product(('first', 'second', 'both'), ('before', 'during')):
        slow, plain = [('guarded_pause', 0.3), ('ret', 1)], [('pause',), ('ret', 2)]
        hs = [dict(bus='A', pat='P', name='hp', prog=[('disp', 'B', 'C', 'await'), ('ret', 0)]),
              dict(bus='B', pat='C', name='hc1', prog=slow if which_slow in ('first', 'both') else plain), dict(bus='B', pat='C', name='hc2', prog=slow if which_slow in ('second', 'both') else plain),
              dict(bus='A', pat='X', name='hxA', prog=[('ret', 0)]), dict(bus='B', pat='X', name='hxB', prog=[('ret', 0)])]
        main = [('disp', 'A', 'P', 'ff', {'timeout': 0.5})] + ([('sleep', 0.45)] if when == 'during' else [('pause',)]) + [('idle', 'B'), ('idle', 'A')]
        for order in (['A', 'B'], ['B', 'A']):
            out.append(dict(prop='C15', family='c15.idle.interrupted_handlers_still_cleaning_up', id=f'c15/cleanup-{which_slow}-{when}-o{"".join(order)}', cfg=dict(cfg, window=1.2, max_targets=3),
                            params=dict(ps='cleanup', when='paused', tmo=None),
                            scn=dict(buses={'A': {}, 'B': dict(parallel=True)}, order=order, handlers=hs, main=main, actors=[], forwards=[], settle=2.0)))
    # an event accepted by A (which has no handler for it, or one) is also offered to B, and B refuses it - B was stopped, or its queue is full
    # (tiny history, 50 queued): whatever the refusal did to the event, A must still go idle
    for why, has_handler, order_first in itertools.product(('stopped', 'full'), (False, True), ('A_first', 'B_first')):
        hs = [dict(bus='B', pat='Y', name='hyB', prog=[('ret', 0)], kind='sync'), dict(bus='B', pat='X', name='hxB', prog=[('ret', 0)]), dict(bus='A', pat='X', name='hxA', prog=[('ret', 0)])]
        if has_handler:
            hs.append(dict(bus='A', pat='Q', name='hqA', prog=[('pause',)]))
        pre = [('disp', 'B', 'X', 'await'), ('stop', 'B', None)] if why == 'stopped' else [('burst', 'B', 'Y', 50)]
        offer = [('disp', 'A', 'Q', 'ff'), ('redisp', 'B', 'Q')] if order_first == 'A_first' else [('disp', 'B', 'Q', 'ff'), ('redisp', 'A', 'Q')]
        main = pre + offer + [('idle', 'A')] + ([('idle', 'B')] if why == 'full' else []) + [('disp', 'A', 'X9', 'ff'), ('idle', 'A')]
        out.append(dict(prop='C15', family='c15.idle.refused_elsewhere', id=f'c15/refused-{why}-h{int(has_handler)}-{order_first}', cfg=cfg, params=dict(ps='refused', when='after', tmo=None),
                        scn=dict(buses={'A': {}, 'B': dict(hist=5)}, order=['A', 'B'], handlers=hs, main=main, actors=[], forwards=[], settle=2.0, no_watch=True)))
    # the grammar-generated corpus shared by the bus properties (vsched/gen.py), judged by this property's oracle
    from .. import gen
    out += gen.family('C15', tier, params=dict(ps='gen', when='paused', tmo=None), timeouts=(None, 0.5) if tier == 'thorough' else (None,), main_mode='idle', allow_forward=(tier == 'thorough'))
    # two buses: an event that already completed on A is dispatched to B while B is busy and a waiter is inside B.wait_until_idle()
    for hshape, extra in itertools.product(('pause', 'ret'), (0, 1)):
        hs = [dict(bus='A', pat='Q', name='hqA', prog=[('ret', 1)]), dict(bus='B', pat='Q', name='hqB', prog=[('pause',)] if hshape == 'pause' else [('ret', 2)]),
              dict(bus='B', pat='G', name='hgB', prog=[('pause',)])]
        main = [('disp', 'A', 'Q', 'await'), ('disp', 'B', 'G0', 'await'), ('sleep', 0.25), ('idle', 'B'), ('pause',), ('idle', 'B')]
        actor = [('sleep', 0.2), ('pause',), ('disp', 'B', 'G1', 'ff'), ('redisp', 'B', 'Q')] + ([('pause',), ('disp', 'B', 'G2', 'ff')] if extra else [])
        # and the producer-chain variant: the waiter starts while G0 is in flight, a producer dispatches G1 the moment G0 completes, the completed Q is replayed onto B meanwhile
        main2 = [('disp', 'A', 'Q', 'await'), ('disp', 'B', 'G0', 'ff'), ('idle', 'B'), ('pause',)]
        actors2 = [[('await', 'G0'), ('disp', 'B', 'G1', 'ff')], [('pause',), ('redisp', 'B', 'Q')] + ([('pause',), ('disp', 'B', 'G2', 'ff')] if extra else [])]
        for order in (['A', 'B'], ['B', 'A']):
            out.append(dict(prop='C15', family='c15.idle.race_after_idle', id=f'c15/race3-{hshape}-x{extra}-o{"".join(order)}', cfg=dict(cfg, bound=3 if not deep else 4, cap=6000 if not deep else 60000),
                            params=dict(ps='race', when='after', tmo=None),
                            scn=dict(buses={'A': {}, 'B': {}}, order=order, handlers=hs, main=main2, actors=actors2, forwards=[], settle=2.0)))
        for order in (['A', 'B'], ['B', 'A']):
            out.append(dict(prop='C15', family='c15.idle.race_after_idle', id=f'c15/race2-{hshape}-x{extra}-o{"".join(order)}', cfg=dict(cfg, bound=3 if not deep else 4, cap=6000 if not deep else 60000),
                            params=dict(ps='race', when='after', tmo=None),
                            scn=dict(buses={'A': {}, 'B': {}}, order=order, handlers=hs, main=main, actors=[actor], forwards=[], settle=2.0)))
    return out


def trigger(spec, res):
    tr = Trace(res)
    for d in tr.idles:
        end = d['end'] if d['end'] is not None else tr.end_seq
        if any(x[0] < end and x[3] == d['bus'] for x in tr.dispatches) and any(d['begin'] < x[0] for x in tr.exits + tr.enters):
            return True
    return False


def oracle(spec, res):
    tr = Trace(res)
    out = []
    v = res['verdict'][0]
    ps = spec['params']['ps']
    for d in tr.idles:
        if d['end'] is None:
            if v in ('hang', 'deadlock', 'livelock'):
                out.append(V('wait_until_idle_never_returns', f'{d["bus"]} called at seq {d["begin"]}: {res["verdict"]}', after=ps))
            continue
        if spec['params']['tmo'] is not None and d['te'] - d['tb'] >= spec['params']['tmo'] - 1e-3:
            continue  # returned by its own timeout: soundness clause does not apply
        if d['q'] or d['pending'] or d['started']:
            out.append(V('returned_while_bus_not_idle', f'{d}', after=ps))
        for seq, bus, ev, who, via in tr.accepted(d['bus']):
            # every event accepted before the call RETURNS counts: between wait_until_idle()'s last look at the bus and its return nothing else runs,
            # so an event accepted before that instant is either visible to it (queued / pending / started) or must be finished
            if seq > d['end']:
                continue
            before_call = seq <= d['begin']
            for h in spec['scn']['handlers']:
                if h['bus'] == bus and h['pat'] == ev[0]:
                    ent = [en for en in tr.enters if en[2] == bus and en[3] == h['name'] and en[4] == ev]
                    ex = [x for x in tr.exits if x[2] == bus and x[3] == h['name'] and x[4] == ev]
                    if ent and (not ex or ex[0][0] > d['end']):
                        out.append(V('returned_before_earlier_event_finished', f'{bus}: {ev} accepted at seq {seq} ({"before" if before_call else "during"} the call {d["begin"]}..{d["end"]}); handler {h["name"]} still running at return', after=ps))
                    if not ent and ps not in ('recurse',) and any(en[0] > d['end'] and en[2] == bus and en[3] == h['name'] and en[4] == ev for en in tr.enters):
                        out.append(V('returned_before_earlier_event_started', f'{bus}: {ev} accepted at seq {seq} ({"before" if before_call else "during"} the call {d["begin"]}..{d["end"]}); handler {h["name"]} entered only after the return', after=ps))
    if v == 'raised':
        out.append(V('main_raised', str(res['verdict'])))
    return out[:6]
