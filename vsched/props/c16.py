"""C16  stop() and loop shutdown terminate the bus promptly.  (DESIGN.md 4, C16)"""
from __future__ import annotations

import asyncio
import itertools

from ..loop import Deadlock, Horizon, Livelock
from ..oracles import Trace, V
from ..world import WHO, World

LEVEL = 'model_checking'
RULE = ('(a) stop(timeout in {None, 0, 0.3}) issued by main at every point of: idle bus, backlog of 1-3 events, handler mid-flight (paused, awaiting a child on own / other bus), '
        'with a second bus running; (b) the exact shutdown sequence of asyncio.run() (cancel every task - in creation order and in reverse creation order, since the real order is that of a set - then gather them) executed on the virtual loop when main returns with 1-2 buses '
        'left running in each of those states -- no private attribute is touched. all schedules <= L deviations. non-trivial = the bus had queued or in-flight work, or a live run-loop '
        'task, when stop()/cancellation arrived; distinct = distinct recorder traces')
ASSUMPTIONS = ['asyncio.run() is represented by its task-cancellation sequence (cancel all tasks, run gather(*tasks, return_exceptions=True) to completion) on the virtual loop',
               'bounded time for stop(timeout) means: virtual time in the call <= timeout + 0.1 s (run-loop grace) + 0.1 s (handler-task grace) + 1 ms']


class ShutdownWorld(World):
    """main returns leaving buses running; then the harness does what asyncio.run() does at exit"""

    def run(self):
        loop = self.loop
        main = loop.create_task(self.main_noquiesce(), name='vsched-main')
        main._log_destroy_pending = False
        try:
            loop.run_until_complete(main)
        except Horizon as e:
            return ('hang', 'main: ' + str(e))
        except (Deadlock, Livelock) as e:
            return ('deadlock', 'main: ' + str(e))
        except BaseException as e:
            return ('raised', f'{type(e).__name__}: {e}')
        self.phase = 'shutdown'
        # asyncio.run() cancels the tasks in the (address-dependent) order of a set: the order is a scenario dimension here
        to_cancel = sorted((t for t in asyncio.all_tasks(loop) if not t.done()), key=lambda t: getattr(t, '_vseq', 0), reverse=(self.spec.get('cancel_order') == 'newest_first'))
        self.extra['tasks_at_exit'] = len(to_cancel)
        self.rec('cancel-all', len(to_cancel))
        for t in to_cancel:
            t.cancel()
        loop.horizon = loop.now() + 6.0
        # from here on the environment answers nothing: every task was told to stop and must do so without further stimulus
        # (harness handlers never swallow CancelledError, so a task still waiting on the environment was not really cancelled)
        loop.stalled = True
        try:
            loop.run_until_complete(_gather(to_cancel))
        except Horizon as e:
            alive = sorted(getattr(t.get_coro(), '__qualname__', '?') for t in to_cancel if not t.done())  # (task names carry a process-global counter)
            self.extra['alive'] = alive
            self.rec('shutdown-hang', tuple(alive))
            return ('hang', 'shutdown: ' + str(e))
        except (Deadlock, Livelock) as e:
            return ('deadlock', 'shutdown: ' + str(e))
        self.rec('shutdown-done', round(loop.now(), 4))
        return ('done', None)

    async def main_noquiesce(self):
        import warnings
        with warnings.catch_warnings():
            warnings.simplefilter('ignore')
            self.build()
            for i, prog in enumerate(self.scn.get('actors', [])):
                asyncio.ensure_future(self._actor(f'actor{i}', prog))
            WHO.set('main')
            await self._run('main', self.scn['main'])
            self.rec('main-returns')


async def _gather(tasks):
    return await asyncio.gather(*tasks, return_exceptions=True)


def make(spec, loop):
    return ShutdownWorld(spec, loop) if spec.get('mode') == 'shutdown' else World(spec, loop)


def _states(deep):
    """(name, buses, handlers, prefix of main) : what the bus is doing when stop / cancellation arrives"""
    hx = lambda b: dict(bus=b, pat='X', name='hx' + b, prog=[('pause',)])
    out = []
    out.append(('idle', ['A'], [hx('A')], [('disp', 'A', 'X', 'await')]))
    out.append(('never_used', ['A'], [hx('A')], []))
    for n in (1, 3):
        out.append((f'backlog{n}', ['A'], [hx('A')], [('disp', 'A', f'X{i}', 'ff') for i in range(n)]))
    out.append(('paused', ['A'], [hx('A')], [('disp', 'A', 'X', 'ff'), ('pause',)]))
    out.append(('paused2', ['A'], [dict(bus='A', pat='X', name='hxA', prog=[('pause',), ('pause',)])], [('disp', 'A', 'X', 'ff'), ('pause',), ('pause',)]))
    for cb in 'AB':
        names = ['A', 'B'] if cb == 'B' else ['A']
        hs = [dict(bus='A', pat='P', name='hp', prog=[('disp', cb, 'C', 'await'), ('pause',), ('pause',)]), dict(bus=cb, pat='C', name='hc', prog=[('pause',)]), hx('A')]
        out.append((f'awaiting_child_{cb}', names, hs, [('disp', 'A', 'P', 'ff'), ('disp', 'A', 'X', 'ff'), ('pause',)]))
    hs = [dict(bus='A', pat='P', name='hp', prog=[('disp', 'B', 'C', 'ff'), ('pause',)]), dict(bus='B', pat='C', name='hc', prog=[('pause',)]), hx('A'), hx('B')]
    out.append(('two_buses', ['A', 'B'], hs, [('disp', 'A', 'P', 'ff'), ('disp', 'B', 'X', 'ff'), ('pause',)]))
    hs = [dict(bus='A', pat='P', name='hp', prog=[('pause',), ('raise', 'ValueError')]), dict(bus='A', pat='P', name='hp2', prog=[('pause',)]), hx('A')]
    out.append(('raising', ['A'], hs, [('disp', 'A', 'P', 'ff'), ('pause',)]))
    # a handler in mid-flight whose clean-up after cancellation takes 1 s (an async finally): stop() must not wait for it
    out.append(('slow_cleanup', ['A'], [dict(bus='A', pat='X', name='hxA', prog=[('guarded_pause', 1.0)])], [('disp', 'A', 'X', 'ff'), ('pause',)]))
    hs = [dict(bus='A', pat='P', name='hp', prog=[('pause',)]), hx('A')]
    out.append(('timeout_pending', ['A'], hs, [('disp', 'A', 'P', 'ff', {'timeout': 0.5}), ('disp', 'A', 'X', 'ff'), ('pause',)]))
    return out


def families(tier):
    deep = tier == 'thorough'
    out = []
    cfg = dict(bound=4 if deep else 2, cap=30000 if deep else 1500, window=0.7, max_targets=3, horizon=25.0)
    for (sname, names, hs, pre), tmo, par in itertools.product(_states(deep), (None, 0, 0.3), (False, True)):
        if par and sname not in ('paused', 'awaiting_child_A', 'raising', 'slow_cleanup'):
            continue
        main = list(pre) + [('stop', 'A', tmo), ('pause',)]
        for hist in ((50, None) if sname.startswith('awaiting_child') else (50,)):
            for order in ([names] if len(names) == 1 else [names, names[::-1]]):
                out.append(dict(prop='C16', family='c16.stop', id=f'c16/stop-{sname}-t{tmo}-p{int(par)}-h{hist}-o{"".join(order)}', cfg=cfg, params=dict(state=sname, tmo=tmo),
                                scn=dict(buses={b: dict(parallel=par, hist=hist) for b in names}, order=order, handlers=hs, main=main, actors=[], forwards=[], settle=1.5)))
    # a producer keeps re-feeding the bus (dispatch, await, short sleep) for 1.2 s while stop(timeout=0.3) is called: the graceful wait must give up at its deadline
    for n, gap, hshape in itertools.product((12,), (0.1, 0.0), ('ret', 'pause', 'sleep')):
        if hshape == 'sleep' and gap:
            continue
        # 'sleep': every event takes 0.1 s inside its handler and the next one is dispatched the moment it completes - the bus is never idle for
        # longer than one callback burst, and every single idle wait of the graceful phase succeeds well within the timeout
        hs = [dict(bus='A', pat='X', name='hxA', prog={'ret': [('ret', 0)], 'pause': [('pause',)], 'sleep': [('sleep', 0.1)]}[hshape])]
        producer = []
        for i in range(n):
            producer += [('disp', 'A', f'X{i}', 'await')] + ([('sleep', gap)] if gap else [])
        for t, pre_sleep in itertools.product((0.3,), (0.0, 0.05, 0.15)):
            main = ([('sleep', pre_sleep)] if pre_sleep else []) + [('stop', 'A', t), ('pause',)]
            # gap 0: the producer never lets the bus rest; virtual time then only passes through the 'slow callbacks' deviation (a pending timer becomes due in mid-burst)
            out.append(dict(prop='C16', family='c16.stop_while_refed', id=f'c16/refed-{hshape}-g{gap}-t{t}-s{pre_sleep}', cfg=dict(cfg, cap=3000, max_points=200, busy_timers=0 if gap else 1, window=0.45, bound=2), params=dict(state='refed', tmo=t),
                            scn=dict(buses={'A': {}}, order=['A'], handlers=hs, main=main, actors=[producer], forwards=[], settle=1.5, join_actors=False)))
    # ordinary code tries to use the bus again after stop() returned (the dispatch is refused: the queue is shut down): whatever stop() left behind
    # - a backlog, a cancelled handler - must stay dead
    for (sname, names, hs, pre), tmo, gap in itertools.product(_states(deep), (None, 0, 0.3), ('none', 'pause', 'sleep')):
        if sname not in ('backlog1', 'backlog3', 'paused', 'paused2', 'awaiting_child_A', 'two_buses', 'slow_cleanup'):
            continue
        hs2 = list(hs) + [dict(bus='A', pat='Z', name='hzA', prog=[('ret', 0)])]
        main = list(pre) + [('stop', 'A', tmo)] + {'none': [], 'pause': [('pause',)], 'sleep': [('sleep', 0.15)]}[gap] + [('disp', 'A', 'Z', 'ff'), ('pause',), ('disp', 'A', 'Z2', 'ff'), ('sleep', 0.3)]
        out.append(dict(prop='C16', family='c16.dispatch_after_stop', id=f'c16/again-{sname}-t{tmo}-{gap}', cfg=cfg, params=dict(state=sname, tmo=tmo),
                        scn=dict(buses={b: {} for b in names}, order=names, handlers=hs2, main=main, actors=[], forwards=[], settle=1.5)))
    # a handler of A hands a child to the idle, running bus B, lets 0-3 loop turns pass (B's queue.get() may have taken the child out while B's run
    # loop has not looked at it yet, and cannot process it while A's handler holds the global lock), stops B, and then awaits the child
    for k, tmo, order in itertools.product((0, 1, 2, 3), (None, 0), (['A', 'B'], ['B', 'A'])):
        hs = [dict(bus='A', pat='P', name='hp', prog=[('disp', 'B', 'C', 'late')] + [('yield',)] * k + [('stop', 'B', tmo), ('await', 'C'), ('pause',)]),
              dict(bus='B', pat='C', name='hcB', prog=[('ret', 1)]), dict(bus='B', pat='X', name='hxB', prog=[('ret', 0)])]
        main = [('disp', 'B', 'X', 'await'), ('disp', 'A', 'P', 'ff'), ('pause',), ('sleep', 0.3)]
        out.append(dict(prop='C16', family='c16.stop_other_bus_from_handler', id=f'c16/xstop-k{k}-t{tmo}-o{"".join(order)}', cfg=cfg, params=dict(state='xstop', tmo=tmo),
                        scn=dict(buses={'A': {}, 'B': {}}, order=order, handlers=hs, main=main, actors=[], forwards=[], settle=1.5)))
    # stop() called again on a bus that was already stopped (teardown code typically does), with and without a positive timeout, while a backlog is left over
    for (sname, names, hs, pre), t1, t2, gap in itertools.product(_states(deep), (None, 0), (0.3, None, 0), ('pause', 'sleep')):
        if sname not in ('backlog3', 'paused', 'paused2', 'two_buses', 'awaiting_child_A'):
            continue
        main = list(pre) + [('stop', 'A', t1), ('pause',) if gap == 'pause' else ('sleep', 0.15), ('stop', 'A', t2), ('pause',)]
        out.append(dict(prop='C16', family='c16.stop_twice', id=f'c16/stop2-{sname}-t{t1}-t{t2}-{gap}', cfg=cfg, params=dict(state=sname, tmo=t2),
                        scn=dict(buses={b: {} for b in names}, order=names, handlers=hs, main=main, actors=[], forwards=[], settle=1.5)))
    for (sname, names, hs, pre), par, hist in itertools.product(_states(deep), (False, True), (50, None)):
        if par and sname not in ('paused', 'awaiting_child_A', 'raising'):
            continue
        if hist is None and not sname.startswith('awaiting_child') and sname != 'two_buses':
            continue
        for order, corder in itertools.product([names] if len(names) == 1 else [names, names[::-1]], ('oldest_first', 'newest_first')):
            out.append(dict(prop='C16', family='c16.shutdown', id=f'c16/shutdown-{sname}-p{int(par)}-h{hist}-o{"".join(order)}-{corder}', cfg=cfg, params=dict(state=sname, tmo=None), mode='shutdown',
                            cancel_order=corder,
                            scn=dict(buses={b: dict(parallel=par, hist=hist) for b in names}, order=order, handlers=hs, main=list(pre), actors=[], forwards=[])))
    return out


def trigger(spec, res):
    if spec.get('mode') == 'shutdown':
        return res['extra'].get('tasks_at_exit', 0) > 0
    tr = Trace(res)
    return any(s['end'] is not None for s in tr.stops) and spec['params']['state'] != 'never_used'


def oracle(spec, res):
    tr = Trace(res)
    out = []
    v = res['verdict']
    st = spec['params']['state']
    if spec.get('mode') == 'shutdown':
        if v[0] in ('hang', 'deadlock') and str(v[1]).startswith('shutdown'):
            out.append(V('task_survives_cancellation', f'{v}; alive: {res["extra"].get("alive")}', state=st))
        elif v[0] != 'done':
            out.append(V('main_did_not_finish', str(v), state=st))
        return out
    if v[0] in ('hang', 'deadlock', 'livelock'):
        if any(s['end'] is None for s in tr.stops):
            out.append(V('stop_never_returns', f'{v}', state=st))
        else:
            out.append(V('hang_after_stop', f'{v}', state=st))
    if v[0] == 'raised':
        out.append(V('stop_raised', str(v), state=st))
    for s in tr.stops:
        if s['end'] is None:
            continue
        limit = (s['timeout'] or 0) + 0.2 + 1e-3
        if s['te'] - s['tb'] > limit:
            out.append(V('stop_took_too_long', f'stop({s["timeout"]}) took {s["te"] - s["tb"]:.3f} virtual seconds > {limit:.3f}', state=st))
        # (a handler start for an event that a LATER dispatch() got accepted - possible only where this stop() found the bus not running and did
        # nothing - is new use of the bus, not something stop() left behind)
        before = {d[4] for d in tr.dispatches if d[3] == s['bus'] and d[5] == 'ok' and d[0] < s['end']}
        late = [en for en in tr.enters if en[2] == s['bus'] and en[0] > s['end'] and en[4] in before]
        if late:
            out.append(V('handler_started_after_stop_returned', f'{late[0]} (stop returned at seq {s["end"]})', state=st))
    return out
