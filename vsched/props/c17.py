"""C17  Write-ahead log has one faithful line per processed event.  (DESIGN.md 4, C17)"""
from __future__ import annotations

import itertools
import json
from datetime import datetime, timezone
from pathlib import PurePosixPath
from typing import Any

from .. import seams
from ..oracles import Trace, V
from ..world import World, evclass

seams.boot()
from bubus import BaseEvent  # noqa: E402

LEVEL = 'model_checking'
RULE = ('(a) payload values from a grammar -- atoms: str (empty, ascii, quotes/backslash, newline, non-BMP unicode), int, big int, float, bool, None, datetime; composites: lists and '
        'dicts of up to 2 (thorough 3) atoms, nested one level -- enumerated completely, each carried in a declared field, an Any field and an extra undeclared field; '
        '(b) processing histories: awaited / fire-and-forget children (own and other bus), forwarding with a WAL on each bus, raising handlers, with the WAL open/write steps as '
        'environment waits so they interleave with other tasks; (c) every fault sequence over {ok, OSError} at mkdir/open/write (free choices) for histories of 2-3 events. '
        'all schedules <= L deviations. non-trivial = at least two lines were written or a fault was injected; distinct = distinct recorder traces (payload index included)')
ASSUMPTIONS = ['anyio file I/O (worker threads, invisible to a virtual loop) is replaced by a shim whose open/write are environment waits plus fault choice points; the text handed to write() is the file content',
               'torn (partial) writes are not modelled: a failing write writes nothing', 're-dispatch of one object to one bus is outside this alphabet']


class W(BaseEvent):
    name: str = ''
    s: str = ''
    data: Any = None
    when: datetime | None = None


ATOMS = ['', 'abc', 'q"uo\\te\'', 'line1\nline2', 'snow☃ \U0001F600', 0, -7, 2 ** 63 + 5, 1.5, True, False, None]


def payload_values(tier):
    vals = list(ATOMS)
    small = ATOMS if tier == 'thorough' else ['abc', 'line1\nline2', 'snow☃ \U0001F600', 0, 1.5, True, None]
    for a in small:
        vals.append([a])
        vals.append({'k': a})
    for a, b in itertools.product(small, repeat=2):
        vals.append([a, b])
        vals.append({'k': a, 'k\n2': b})
        vals.append({'n': [a, {'m': b}]})
    if tier == 'thorough':
        for a, b, c in itertools.product(['abc', 'snow☃ \U0001F600', 0, None, True], repeat=3):
            vals.append([a, [b, c]])
    return vals


class FakeFile:
    def __init__(self, world, path):
        self.world, self.path = world, path

    async def __aenter__(self):
        return self

    async def __aexit__(self, *a):
        return False

    async def write(self, text):
        w = self.world
        await w.loop.pause('wal-write')
        c = w.loop.choose('fault', w.faults, 'write') if w.faults else 0
        if c:
            w.rec('wal', 'write-fault', str(self.path))
            raise (OSError('injected write error') if c == 1 else RuntimeError('injected non-OS write error'))
        w.files.setdefault(str(self.path), []).append(text)
        w.rec('wal', 'written', str(self.path), w.by_id.get(_peek_id(text), '?'))
        return len(text)


def _peek_id(text):
    try:
        return json.loads(text).get('event_id')
    except Exception:
        return None


class FakeAnyio:
    def __init__(self, world):
        self.world = world

    async def open_file(self, path, mode='r', encoding=None, **kw):
        w = self.world
        w.opened += 1
        await w.loop.pause('wal-open')
        c = w.loop.choose('fault', w.faults, 'open') if w.faults else 0
        if c:
            w.rec('wal', 'open-fault', str(path))
            raise (OSError('injected open error') if c == 1 else ValueError('injected non-OS open error'))
        if mode != 'a':
            w.rec('wal', 'bad-mode', mode)
        return FakeFile(w, path)


class _Parent:
    def __init__(self, world, path):
        self.world, self.path = world, path

    def mkdir(self, *a, **kw):
        w = self.world
        c = w.loop.choose('fault', 2, 'mkdir') if w.faults else 0
        if c:
            w.rec('wal', 'mkdir-fault', self.path)
            raise (OSError('injected mkdir error') if c == 1 else PermissionError('injected mkdir permission error') if c == 2 else None)


class WalPath(PurePosixPath):
    """stands in for bus.wal_path: parent.mkdir() is a fault choice point, nothing touches the disk"""
    world = None

    @property
    def parent(self):
        return _Parent(WalPath.world, str(self))


class WalWorld(World):
    def __init__(self, spec, loop):
        super().__init__(spec, loop)
        self.files: dict = {}
        self.opened = 0
        self.faults = int(spec.get('faults') or 0)  # number of answers at each open/write fault point: 2 = {ok, OSError}, 3 = + a non-OSError exception
        self.payloads = spec.get('payloads', {})
        self.dumps: dict = {}
        seams.S.anyio = FakeAnyio(self)
        WalPath.world = self

    def build(self):
        super().build()
        for name, cfg in self.scn['buses'].items():
            if cfg.get('wal'):
                self.buses[name].wal_path = WalPath(cfg['wal'])

    def new_event(self, key, ctx_name, opts):
        if key[0] != 'W':
            return super().new_event(key, ctx_name, opts)
        base = key if ctx_name is None else f'{key}<{ctx_name}'
        nm, k = base, 1
        while nm in self.events:
            k += 1
            nm = f'{base}#{k}'
        kw = {}
        if key in self.payloads:
            v = self.payloads[key]
            if v == '__BAD_surrogate':
                v = 'caf\udce9'
            elif v == '__BAD_object':
                v = object()
            kw = dict(data=v, extra_field=v, s=v if isinstance(v, str) else 'fixed', when=datetime(2031, 5, 6, 7, 8, 9, 123456, tzinfo=timezone.utc))
        e = W(name=nm, **kw)
        self.events[nm] = e
        self.by_id[e.event_id] = nm
        return e

    def result(self, verdict):
        r = super().result(verdict)
        r['files'] = {k: list(v) for k, v in self.files.items()}
        r['opened'] = self.opened
        r['events_json'] = {}
        for nm, e in self.events.items():
            try:
                r['events_json'][nm] = json.loads(e.model_dump_json())
            except Exception:  # unserialisable payload (family c17.unserialisable)
                r['events_json'][nm] = None
        r['classes'] = {nm: type(e).__name__ for nm, e in self.events.items()}
        r['trace_key'] = (r['trace_key'], tuple(sorted(self.payloads)) and repr(sorted(self.payloads.items(), key=lambda kv: kv[0]))[:200])
        return r

    def teardown(self):
        super().teardown()
        import anyio
        seams.S.anyio = anyio


def make(spec, loop):
    return WalWorld(spec, loop)


def families(tier):
    deep = tier == 'thorough'
    out = []
    # (a) payload round trip: batches of 6 events per execution, one bus, sequential
    vals = payload_values(tier)
    batch = 6
    for i in range(0, len(vals), batch):
        chunk = vals[i:i + batch]
        payloads = {f'W{j + 1}': v for j, v in enumerate(chunk)}
        main = [('disp', 'A', k, 'await') for k in payloads]
        hs = [dict(bus='A', pat='*', name='hw', prog=[('ret', 1)])]
        out.append(dict(prop='C17', family='c17.payloads', id=f'c17/payload-{i:04d}', cfg=dict(bound=0, cap=5, busy=False), payloads=payloads, params=dict(kind='payload'),
                        scn=dict(buses={'A': dict(wal='/wal/a.jsonl')}, order=['A'], handlers=hs, main=main, actors=[], forwards=[], settle=1.0)))
    # (a2) payloads that cannot be serialised (lone surrogate from surrogateescape decoding, arbitrary object in an extra field): the write fails,
    #      is reported, and must not affect processing or the other lines
    class _Opaque:
        pass
    for bad_kind, shape in itertools.product(['surrogate', 'object'], ['flat', 'awaited_child', 'forwarded']):
        names = ['A', 'B'] if shape == 'forwarded' else ['A']
        buses = {'A': dict(wal='/wal/a.jsonl')}
        if shape == 'forwarded':
            buses['B'] = dict(wal='/wal/b.jsonl')
        hs = [dict(bus='A', pat='*', name='hw', prog=[('ret', 1)]), dict(bus='A', pat='P', name='hp', prog=[('disp', 'A', 'W2', 'await')] if shape == 'awaited_child' else [('ret', 2)])]
        if shape == 'forwarded':
            hs.append(dict(bus='B', pat='*', name='hwB', prog=[('ret', 3)]))
        main = [('disp', 'A', 'W1', 'await'), ('disp', 'A', 'P', 'await'), ('disp', 'A', 'W2', 'await') if shape != 'awaited_child' else ('pause',), ('disp', 'A', 'W3', 'await')]
        out.append(dict(prop='C17', family='c17.unserialisable', id=f'c17/unser-{bad_kind}-{shape}', cfg=dict(bound=1, cap=400, window=0.25, max_targets=1), params=dict(kind='unserialisable'),
                        payloads={'W1': 'fine', 'W2': '__BAD_' + bad_kind, 'W3': 'also fine'}, bad=['W2'],
                        scn=dict(buses=buses, order=names, handlers=hs, main=main, actors=[], forwards=[('A', 'B')] if shape == 'forwarded' else [], settle=2.0)))
    # (b) histories
    cfg = dict(bound=3 if deep else 2, cap=30000 if deep else 1500, window=0.25, max_targets=1)
    for shape, walB, second in itertools.product(['aw_same', 'aw_other', 'ff_same', 'ff_other', 'fwd', 'raise', 'nested2'], (False, True), (False, True)):
        names = ['A', 'B'] if ('other' in shape or shape == 'fwd' or walB) else ['A']
        buses = {'A': dict(wal='/wal/a.jsonl')}
        if 'B' in names:
            buses['B'] = dict(wal='/wal/b.jsonl') if walB else {}
        cb = 'B' if 'other' in shape else 'A'
        hp = {'aw_same': [('disp', 'A', 'C', 'await')], 'aw_other': [('disp', 'B', 'C', 'await')], 'ff_same': [('disp', 'A', 'C', 'ff'), ('pause',)],
              'ff_other': [('disp', 'B', 'C', 'ff'), ('pause',)], 'fwd': [('pause',)], 'raise': [('pause',), ('raise', 'ValueError')],
              'nested2': [('disp', 'A', 'C', 'await'), ('disp', 'A', 'C2', 'await')]}[shape]
        hs = [dict(bus='A', pat='P', name='hp', prog=hp), dict(bus=cb, pat='C', name='hc', prog=[('pause',)] if shape != 'nested2' else [('disp', 'A', 'G', 'await')]),
              dict(bus='A', pat='G', name='hg', prog=[('ret', 1)]), dict(bus='A', pat='X', name='hx', prog=[('ret', 0)])]
        if second:
            hs.append(dict(bus='A', pat='P', name='hp2', prog=[('pause',)]))
        if shape == 'fwd':
            hs.append(dict(bus='B', pat='P', name='hpB', prog=[('pause',)]))
            hs.append(dict(bus='B', pat='X', name='hxB', prog=[('ret', 0)]))
        if shape == 'fwd' and walB and second:
            # the chain goes one bus further (A -> B -> C, a log on each): the same event object is written three times, its path growing in between
            names = ['A', 'B', 'C']
            buses = dict(buses, C=dict(wal='/wal/c.jsonl'))
            hs.append(dict(bus='C', pat='P', name='hpC', prog=[('pause',)]))
            hs.append(dict(bus='C', pat='X', name='hxC', prog=[('ret', 0)]))
        main = [('disp', 'A', 'P', 'ff'), ('disp', 'A', 'X', 'ff')]
        hs.append(dict(bus='A', pat='Y', name='hy', prog=[('ret', 0)]))
        actors = [[('pause',), ('disp', 'A', 'Y', 'ff'), ('pause',), ('disp', names[-1], 'X2', 'ff')]]
        for order in ([names] if len(names) == 1 else [names, names[::-1]]):
            out.append(dict(prop='C17', family='c17.histories', id=f'c17/hist-{shape}-wb{int(walB)}-s{int(second)}-o{"".join(order)}', cfg=cfg, params=dict(kind='history', shape=shape),
                            scn=dict(buses=buses, order=order, handlers=hs, main=main, actors=actors, forwards=([('A', 'B'), ('B', 'C')] if 'C' in names else [('A', 'B')]) if shape == 'fwd' else [], settle=3.0)))
    # (c) fault sequences (free choices): every sequence over {ok, OSError} at mkdir/open/write
    fcfg = dict(bound=1 if not deep else 2, cap=20000, free=('fault',), window=0.25, max_targets=1, busy=deep)
    for shape in ['two', 'nested', 'fwd']:
        names = ['A', 'B'] if shape == 'fwd' else ['A']
        buses = {'A': dict(wal='/wal/a.jsonl')}
        if shape == 'fwd':
            buses['B'] = dict(wal='/wal/b.jsonl')
        hp = [('disp', 'A', 'C', 'await')] if shape == 'nested' else [('ret', 1)]
        hs = [dict(bus='A', pat='P', name='hp', prog=hp), dict(bus='A', pat='C', name='hc', prog=[('ret', 2)]), dict(bus='A', pat='X', name='hx', prog=[('ret', 0)])]
        if shape == 'fwd':
            hs += [dict(bus='B', pat='P', name='hpB', prog=[('ret', 3)]), dict(bus='B', pat='X', name='hxB', prog=[('ret', 3)])]
        main = [('disp', 'A', 'P', 'ff'), ('disp', 'A', 'X', 'ff'), ('idle', 'A')]
        out.append(dict(prop='C17', family='c17.faults', id=f'c17/faults-{shape}', cfg=fcfg, faults=(3 if (deep or shape != 'fwd') else 2), params=dict(kind='faults', shape=shape),
                        scn=dict(buses=buses, order=names, handlers=hs, main=main, actors=[], forwards=[('A', 'B')] if shape == 'fwd' else [], settle=3.0)))
    return out


def trigger(spec, res):
    n = sum(len(v) for v in res.get('files', {}).values())
    return n >= 2 or any(r[2] == 'wal' and 'fault' in r[3] for r in res['log'])


def _json_equal(a, b):
    return json.dumps(a, sort_keys=True) == json.dumps(b, sort_keys=True)


def oracle(spec, res):
    tr = Trace(res)
    out = []
    v = res['verdict'][0]
    kind = spec['params']['kind']
    if v != 'done':
        out.append(V('wal_affected_processing', f'verdict {res["verdict"]}', kind=kind))
        return out
    faults = [r for r in res['log'] if r[2] == 'wal' and 'fault' in r[3]]
    if res.get('opened', 0) == 0 and not faults:
        out.append(V('seam_not_hit', 'anyio.open_file was never called'))
    wal_of = {cfg['wal']: b for b, cfg in spec['scn']['buses'].items() if cfg.get('wal')}
    # every accepted (bus, event) handled exactly once and complete, whatever the faults
    accepted = {}
    for seq, bus, ev, who, via in tr.accepted():
        accepted.setdefault((bus, ev), seq)
    cnt = {}
    for en in tr.enters:
        cnt[(en[2], en[3], en[4])] = cnt.get((en[2], en[3], en[4]), 0) + 1
    for (bus, ev) in accepted:
        for h in spec['scn']['handlers']:
            if h['bus'] == bus and (h['pat'] == ev[0] or h['pat'] == '*'):
                if cnt.get((bus, h['name'], ev), 0) != 1:
                    out.append(V('wal_affected_processing', f'{bus}.{h["name"]} ran {cnt.get((bus, h["name"], ev), 0)} times for {ev} (faults: {len(faults)})', kind=kind))
    for ev, fe in res['final']['events'].items():
        if fe['status'] != 'completed' or not fe['sig']:
            out.append(V('wal_affected_processing', f'{ev} did not complete (faults: {len(faults)})', kind=kind))
    # file contents
    ev_json = res['events_json']
    id_to_name = {j['event_id']: nm for nm, j in ev_json.items() if j}
    bad_events = {nm for nm, j in ev_json.items() if j is None}
    wrote = {}
    for r in res['log']:
        if r[2] == 'wal' and r[3] == 'written':
            wrote.setdefault((r[4], r[5]), []).append(r[0])
    for path, chunks in res['files'].items():
        bus = wal_of.get(path)
        text = ''.join(chunks)
        if text and not text.endswith('\n'):
            out.append(V('line_not_terminated', f'{path}: ...{text[-40:]!r}', kind=kind))
        lines = text.split('\n')[:-1] if text else []
        seen = []
        for ln in lines:
            try:
                obj = json.loads(ln)
                assert isinstance(obj, dict)
            except Exception as ex:
                out.append(V('line_is_not_one_json_object', f'{path}: {ln[:80]!r} ({ex})', kind=kind))
                continue
            nm = id_to_name.get(obj.get('event_id'))
            if nm is None:
                out.append(V('line_for_unknown_event', f'{path}: {ln[:80]!r}', kind=kind))
                continue
            seen.append(nm)
            want = ev_json[nm]
            for k in ('event_id', 'event_type', 'event_parent_id', 'event_schema', 'event_timeout'):
                if obj.get(k) != want.get(k):
                    out.append(V('line_does_not_match_event', f'{path} {nm}: {k} {obj.get(k)!r} != {want.get(k)!r}', kind=kind))
            if obj.get('event_path') != want['event_path'][:len(obj.get('event_path', []))] or bus not in obj.get('event_path', []):
                out.append(V('line_does_not_match_event', f'{path} {nm}: path {obj.get("event_path")} vs {want["event_path"]}', kind=kind))
            # ... and it is the event AS THIS BUS PROCESSED IT: its path at the moment of the write = the buses that had accepted it by then, in order of arrival
            wseq = wrote.get((path, nm), [None]).pop(0) if wrote.get((path, nm)) else None
            if wseq is not None:
                arrived = []
                for d in tr.dispatches:
                    if d[4] == nm and d[5] == 'ok' and d[0] < wseq and d[3] not in arrived:
                        arrived.append(d[3])
                if obj.get('event_path') != arrived:
                    out.append(V('line_is_a_stale_snapshot_of_the_event', f'{path} {nm}: line has path {obj.get("event_path")}, the event had reached {arrived} when {bus} wrote it', kind=kind))
            if 'event_results' in obj:
                out.append(V('results_leak_into_line', f'{path} {nm}', kind=kind))
            payload_keys = [k for k in want if not k.startswith('event_')]
            for k in payload_keys:
                if k not in obj or not _json_equal(obj[k], want[k]):
                    out.append(V('payload_not_faithful', f'{path} {nm}: field {k}: {obj.get(k)!r} != {want[k]!r}', kind=kind))
            # validates back into an event: with the base class and with its own class
            try:
                for cls in (BaseEvent, W if res['classes'][nm] == 'W' else evclass(nm)):
                    back = cls.model_validate_json(ln)
                    bj = json.loads(back.model_dump_json())
                    for k in ['event_id', 'event_type', 'event_parent_id', 'event_path'] + payload_keys:
                        if not _json_equal(bj.get(k), obj.get(k)):
                            out.append(V('line_does_not_validate_back', f'{path} {nm} via {cls.__name__}: {k}: {bj.get(k)!r} != {obj.get(k)!r}', kind=kind))
            except Exception as ex:
                out.append(V('line_does_not_validate_back', f'{path} {nm}: {type(ex).__name__}: {str(ex)[:200]}', kind=kind))
        # exactly one line per processed (bus, event), in processing order (order of last handler exit), unless a fault hit that event
        dup = {n for n in seen if seen.count(n) > 1}
        if dup:
            out.append(V('more_than_one_line_for_an_event', f'{path}: {sorted(dup)}', kind=kind))
        last_exit = {}
        for ex in tr.exits:
            if ex[2] == bus:
                last_exit[ex[4]] = ex[0]
        processed = [e for (b, e) in accepted if b == bus and e in last_exit]
        if not faults:
            missing = [e for e in processed if e not in seen and e not in bad_events]
            if missing:
                out.append(V('missing_line', f'{path}: no line for {missing}', kind=kind))
            seen_h = [e for e in seen if e in last_exit]  # events without a harness handler on this bus have no observable processing instant
            order = sorted(seen_h, key=lambda e: last_exit[e])
            if seen_h != order:
                out.append(V('lines_not_in_processing_order', f'{path}: file order {seen_h}, processing order {order}', kind=kind))
        else:
            if len([e for e in processed if e not in seen]) > len(faults):
                out.append(V('fault_lost_more_than_its_own_line', f'{path}: {len(faults)} faults but missing {[e for e in processed if e not in seen]}', kind=kind))
    # timing: a line is written after the last handler exit of that (bus, event) and before the next event's first entry on that bus
    for r in res['log']:
        if r[2] == 'wal' and r[3] == 'written':
            bus = wal_of.get(r[4])
            ev = r[5]
            exits = [x[0] for x in tr.exits if x[2] == bus and x[4] == ev]
            enters = [x[0] for x in tr.enters if x[2] == bus and x[4] == ev]
            if exits and max(exits) > r[0]:
                out.append(V('line_written_before_handlers_finished', f'{r}: handler exit at seq {max(exits)}', kind=kind))
            if enters and any(x > r[0] for x in enters):
                out.append(V('line_written_before_handlers_finished', f'{r}: handler entered later at seq {[x for x in enters if x > r[0]]}', kind=kind))
    return out[:8]
