"""C18  expect() returns the first match and always unsubscribes.  (DESIGN.md 4, C18)"""
from __future__ import annotations

import asyncio
import itertools
import warnings

from .. import seams
from ..oracles import V

seams.boot()
from bubus import BaseEvent, EventBus  # noqa: E402

LEVEL = 'model_checking'
RULE = ('event streams of length <= 3 (thorough 4) over {T1 v=0, T1 v=1, T2 v=1} dispatched by main with environment waits in between; 1-2 concurrent expect() calls drawn from a menu of '
        '(type by class, by name or the wildcard "*", include / exclude / deprecated predicate in {default, explicit None, v==1, raises}, timeout in {None, 0.5, 0}); calls start before the stream or after its first '
        'event; an external canceller cancels the first call after 0-2 waits; calls still pending at the end are cancelled by the harness. Processing order comes from a sync probe handler '
        'registered before any expect(). all schedules <= L deviations. non-trivial = an expect call was pending while at least one event of its type was processed; distinct = recorder traces')
ASSUMPTIONS = ['an event processed at the very instant of the deadline (|dt| < 1 us) may or may not be seen',
               'a call cancelled after its match was found but before its task resumed may end either way (asyncio semantics)']


class T1(BaseEvent):
    v: int = 0
    name: str = ''


class T2Pinned(BaseEvent):
    """the second event type is a class that PINS its event_type ('T2') instead of taking it from the class name: expect(TheClass) and expect('T2') mean the same events"""
    event_type: str = 'T2'
    v: int = 0
    name: str = ''


T2 = T2Pinned


def _is1(e):
    return e.v == 1


def _boom(e):
    raise KeyError('filter raises')


FILTERS = {'default': None, 'none': None, 'is1': _is1, 'raises': _boom}
# (type, by, include, exclude, predicate, timeout)
MENU = [
    ('T1', 'cls', 'default', 'default', 'default', None),
    ('T1', 'str', 'is1', 'default', 'default', 0.5),
    ('T1', 'cls', 'default', 'is1', 'default', 0.5),
    ('T1', 'cls', 'default', 'default', 'is1', None),
    ('T1', 'str', 'raises', 'default', 'default', 0.5),
    ('T2', 'cls', 'default', 'default', 'default', 0.5),
    ('T1', 'cls', 'is1', 'raises', 'default', 0.5),
    ('T2', 'str', 'is1', 'default', 'default', None),
    ('T1', 'cls', 'is1', 'default', 'default', None),   # 8: same type/timeout as 0, different filter
    ('T1', 'str', 'default', 'is1', 'default', 0.5),   # 9: same type/timeout as 1, complementary filter
    ('T1', 'cls', 'is1', 'default', 'none', 0.5),      # 10: predicate=None passed explicitly (the README's documented default)
    ('T1', 'str', 'default', 'default', 'none', None),  # 11
    ('*', 'str', 'is1', 'default', 'default', 0.5),     # 12: wildcard expect: any event type (its temporary handler sits in the '*' list, beside typed subscriptions)
    ('*', 'str', 'default', 'default', 'default', None),  # 13
    ('T1', 'cls', 'default', 'default', 'default', 0),  # 14: timeout=0 - 'do not wait at all' is a legitimate deadline, not 'no deadline'
]


class ExpectWorld:
    def __init__(self, spec, loop):
        self.spec, self.loop = spec, loop
        self.log = []
        self.seq = 0
        self.events = {}
        self.phase = 'prog'

    def rec(self, kind, *f):
        self.seq += 1
        self.loop.activity += 1
        self.log.append((self.seq, round(self.loop.now(), 6), kind) + f)
        return self.seq

    def table(self):
        return tuple(sorted((k, len(v)) for k, v in self.bus.handlers.items() if v))

    async def call(self, i, cfg):
        typ, by, inc, exc, pred, tmo = cfg
        kw = {}
        if FILTERS[inc]:
            kw['include'] = FILTERS[inc]
        if FILTERS[exc]:
            kw['exclude'] = FILTERS[exc]
        if pred == 'none':
            kw['predicate'] = None
        elif FILTERS[pred]:
            kw['predicate'] = FILTERS[pred]
        if tmo is not None:
            kw['timeout'] = tmo
        target = {'T1': T1, 'T2': T2}[typ] if by == 'cls' else typ
        self.rec('expect-begin', i, self.table())
        try:
            r = await self.bus.expect(target, **kw)
            self.rec('expect-end', i, 'returned', getattr(r, 'name', '?') if isinstance(r, BaseEvent) else repr(r), self.table())
        except asyncio.CancelledError:
            self.rec('expect-end', i, 'cancelled', None, self.table())
            raise
        except TimeoutError:
            self.rec('expect-end', i, 'timeout', None, self.table())
        except BaseException as ex:  # noqa: BLE001
            self.rec('expect-end', i, 'raised', type(ex).__name__, self.table())

    async def main(self):
        sp = self.spec['x']
        with warnings.catch_warnings():
            warnings.simplefilter('ignore')
            bus = self.bus = EventBus(name='A')

            def probe(e):
                self.rec('processed', e.name, e.event_type, e.v)
                return 'p'

            self._probe = probe
            bus.on(T1, probe)  # type-specific and registered first: runs ahead of every temporary expect handler
            bus.on('T2', probe)
            if sp.get('slow'):
                # an ordinary slow handler of T1, registered before any expect(): a call can time out / be cancelled while an event
                # whose handlers were already selected is still being processed
                async def slow(e):
                    await self.loop.pause('slow')
                    self.rec('slow-done', e.name)
                    return 's'
                self._slow = slow
                bus.on(T1, slow)
            self.rec('table0', self.table())
            tasks = []
            early = [i for i, c in enumerate(sp['calls']) if sp['start'][i] == 0]
            late = [i for i, c in enumerate(sp['calls']) if sp['start'][i] == 1]
            for i in early:
                tasks.append((i, asyncio.ensure_future(self.call(i, MENU[sp['calls'][i]]))))
            canc = None
            if sp['cancel'] is not None:
                canc = asyncio.ensure_future(self.canceller(tasks, sp['cancel']))
            stopper = None
            if sp.get('stop_clear') is not None:
                stopper = asyncio.ensure_future(self.stopper(sp['stop_clear']))
            for k, (typ, v) in enumerate(sp['stream']):
                if k == 1:
                    for i in late:
                        tasks.append((i, asyncio.ensure_future(self.call(i, MENU[sp['calls'][i]]))))
                await self.loop.pause('main')
                nm = f'e{k}'
                e = (T1 if typ == 'T1' else T2)(v=v, name=nm)
                self.events[nm] = e
                try:
                    bus.dispatch(e)
                    self.rec('dispatched', nm)
                except Exception as ex:  # noqa: BLE001  (the bus was stopped by the stopper actor)
                    self.rec('dispatch-refused', nm, type(ex).__name__)
            if len(sp['stream']) <= 1:
                for i in late:
                    tasks.append((i, asyncio.ensure_future(self.call(i, MENU[sp['calls'][i]]))))
            await self.loop.pause('main')
            # let time-outs expire, then cancel what is still pending (harness, recorded as a cancel)
            await self.loop.hsleep(1.0)
            if canc is not None and not canc.done():
                canc.cancel()
            if stopper is not None and not stopper.done():
                stopper.cancel()
            for i, t in tasks:
                if not t.done():
                    self.rec('cancel', i, 'final')
                    t.cancel()
            for i, t in tasks:
                try:
                    await t
                except BaseException:  # noqa: BLE001
                    pass
            await self.loop.hsleep(0.3)
            self.phase = 'final'
            self.rec('final', self.table())

    async def stopper(self, k):
        for _ in range(k):
            await self.loop.pause('stopper')
        self.rec('stop-clear-begin')
        await self.bus.stop(clear=True)
        self.rec('stop-clear-end', self.table())

    async def canceller(self, tasks, k):
        for _ in range(k):
            await self.loop.pause('canceller')
        for i, t in tasks:
            if i == 0 and not t.done():
                self.rec('cancel', i, 'actor')
                t.cancel()

    def result(self, verdict):
        log = list(self.log)
        fin = {nm: (e.event_status, [(r.handler_name.rsplit('.', 1)[-1][:12], r.status, type(r.error).__name__ if r.error is not None else None) for r in e.event_results.values()]) for nm, e in self.events.items()}
        return dict(log=log, verdict=verdict, phase=self.phase, final=fin, trace_key=(tuple(r[2:] for r in log), verdict[0]))

    def teardown(self):
        self.bus._is_running = False
        if self.bus.event_queue is not None:
            self.bus.event_queue.shutdown()


def make(spec, loop):
    return ExpectWorld(spec, loop)


def families(tier):
    deep = tier == 'thorough'
    out = []
    cfg = dict(bound=2, cap=4000 if deep else 1200, window=0.8, max_targets=2, horizon=25.0)  # thorough = the unpruned product of streams x calls x starts x cancels
    letters = [('T1', 0), ('T1', 1), ('T2', 1)]
    streams = []
    for n in range(1, 4):
        streams += list(itertools.product(letters, repeat=n))
    if deep:
        streams += [st for st in itertools.product(letters, repeat=4) if st[0] == ('T1', 0) and st[3] != ('T2', 1)]
    call_sets = [(i,) for i in range(8)] + [(10,), (11,), (10, 0), (12,), (13,), (12, 0), (14,), (14, 0), (0, 1), (1, 2), (3, 4), (0, 5), (2, 6), (1, 7), (4, 0), (0, 8), (8, 0), (1, 9), (9, 1)]
    for stream in streams:
        for calls in call_sets:
            if len(calls) == 2 and len(stream) > (3 if deep else 2):
                continue
            two_on_three = len(calls) == 2 and len(stream) == 3  # (thorough only; kept to the cancel-free starts: the full product was 12.5 * 10^6 executions, over two hours)
            if len(stream) == 4 and (len(calls) > 1 or calls[0] not in (0, 1, 2, 8)):
                continue
            for start, cancel in itertools.product(itertools.product((0, 1), repeat=len(calls)), (None, 0, 1, 2)):
                if two_on_three and (cancel is not None or start == (1, 1)):
                    continue
                if not deep and (cancel == 2 or (cancel == 0 and len(stream) > 1)):
                    continue
                if not deep and len(calls) == 2 and (start in ((1, 1), (1, 0)) or cancel == 0):
                    continue
                if not deep and len(stream) == 3 and (start[0] == 1 or cancel is not None or calls[0] not in (0, 1, 2, 3) or stream[0][0] == 'T2'):
                    continue
                sid = f'{"".join(t[1] + str(v) for t, v in stream)}-c{"_".join(map(str, calls))}-s{"".join(map(str, start))}-x{cancel}'
                out.append(dict(prop='C18', family='c18.expect', id='c18/' + sid, cfg=cfg, x=dict(stream=list(stream), calls=list(calls), start=list(start), cancel=cancel)))
                if len(stream) <= 2 and cancel in (None, 1) and (deep or (len(calls) == 1 and calls[0] in (0, 1, 4) and start[0] == 0 and cancel is None and stream[0][0] == 'T1')):
                    for k in ((0, 1, 2) if deep else (1,)):
                        out.append(dict(prop='C18', family='c18.expect_bus_stopped_and_cleared', id=f'c18/stopclear{k}-' + sid, cfg=cfg,
                                        x=dict(stream=list(stream), calls=list(calls), start=list(start), cancel=cancel, stop_clear=k)))
                if len(stream) <= 2 and (deep or (len(calls) == 1 and calls[0] in (0, 1, 2, 4) and start[0] == 0)) and any(t == 'T1' for t, _ in stream):
                    out.append(dict(prop='C18', family='c18.expect_slow_handler', id='c18/slow-' + sid, cfg=cfg,
                                    x=dict(stream=list(stream), calls=list(calls), start=list(start), cancel=cancel, slow=True)))
    return out


def trigger(spec, res):
    log = res['log']
    begins = {r[3]: r[0] for r in log if r[2] == 'expect-begin'}
    ends = {r[3]: r[0] for r in log if r[2] == 'expect-end'}
    sp = spec['x']
    for i, b in begins.items():
        typ = MENU[sp['calls'][i]][0]
        e = ends.get(i, 10 ** 9)
        if any(r[2] == 'processed' and typ in (r[4], '*') and b < r[0] < e for r in log):
            return True
    return False


def _passes(cfgm, v):
    typ, by, inc, exc, pred, tmo = cfgm
    def f(name, dflt):
        if name in ('default', 'none'):
            return dflt
        if name == 'raises':
            return 'raise'
        return v == 1
    a, b, c = f(inc, True), f(pred, True), f(exc, False)
    # library evaluates include(event) [= original include and predicate] then not exclude(event); a raising filter never matches
    if a == 'raise':
        return False
    if a is False:
        return False
    if b == 'raise':
        return False
    if b is False:
        return False
    if c == 'raise':
        return False
    return not c


def oracle(spec, res):
    out = []
    log = res['log']
    sp = spec['x']
    v = res['verdict'][0]
    if v != 'done':
        out.append(V('expect_hangs_or_crashes', f'{res["verdict"]}'))
        return out
    table0 = next(r[3] for r in log if r[2] == 'table0')
    final = next((r for r in log if r[2] == 'final'), None)
    stop_seq = next((r[0] for r in log if r[2] == 'stop-clear-begin'), None)
    if stop_seq is not None and not any(r[2] == 'stop-clear-end' and r[3] == () for r in log):
        stop_seq = None  # stop() on a bus that was never started is a no-op (nothing was cleared): the ordinary clauses apply
    if stop_seq is not None:
        # stop(clear=True) empties the handler table on purpose: after it every pending call can only time out or be cancelled, with exactly those exceptions
        if final is not None and sum(n for _, n in final[3]) != 0:
            out.append(V('subscription_not_removed', f'handlers left after stop(clear=True) and the end of every call: {final[3]}'))
    if stop_seq is None and final is not None and final[3] != table0:
        out.append(V('subscription_not_removed', f'handler table at the end {final[3]} != before {table0}'))
    begins = {r[3]: r for r in log if r[2] == 'expect-begin'}
    ends = {r[3]: r for r in log if r[2] == 'expect-end'}
    for i, b in begins.items():
        cfgm = MENU[sp['calls'][i]]
        typ, tmo = cfgm[0], cfgm[5]
        e = ends.get(i)
        if e is None:
            out.append(V('expect_never_ended', f'call {i} {cfgm}'))
            continue
        kind, what = e[4], e[5]
        cancels = [r for r in log if r[2] == 'cancel' and r[3] == i and b[0] < r[0] < e[0]]
        deadline = None if tmo is None else b[1] + tmo
        cands = [r for r in log if r[2] == 'processed' and typ in (r[4], '*') and r[0] > b[0] and r[0] < e[0]]
        if sp.get('slow') and typ in ('T1', '*'):
            # the temporary handler's turn comes after the slow handler of the same (T1) event: use that instant
            done = {r[3]: r for r in log if r[2] == 'slow-done'}
            cands = [r if r[4] != 'T1' else (done[r[3]][0], done[r[3]][1], 'processed', r[3], r[4], r[5]) for r in cands if r[4] != 'T1' or (r[3] in done and done[r[3]][0] < e[0])]
        matches = [r for r in cands if _passes(cfgm, r[5])]
        first = matches[0] if matches else None
        tagd = dict(outcome=kind, filters='+'.join(cfgm[2:5]))
        if kind == 'returned':
            if first is None:
                out.append(V('returned_non_matching_event', f'call {i} {cfgm} returned {what}; candidates {[(r[3], r[5]) for r in cands]}', **tagd))
            elif what != first[3]:
                out.append(V('returned_not_the_first_match', f'call {i} {cfgm} returned {what}, first match in processing order is {first[3]}', **tagd))
            elif deadline is not None and first[1] > deadline + 1e-6:
                out.append(V('returned_after_deadline', f'call {i} {cfgm} returned {what} processed at {first[1]} > deadline {deadline}', **tagd))
        elif kind == 'timeout':
            if tmo is None:
                out.append(V('timeout_without_timeout', f'call {i} {cfgm}', **tagd))
            else:
                if abs(e[1] - deadline) > 1e-4:
                    out.append(V('timeout_at_wrong_time', f'call {i} {cfgm}: TimeoutError at {e[1]} deadline {deadline}', **tagd))
                early = [r for r in matches if r[1] < deadline - 1e-6]
                if early:
                    out.append(V('timed_out_although_a_match_arrived_in_time', f'call {i} {cfgm}: match {early[0][3]} processed at {early[0][1]} < deadline {deadline}', **tagd))
        elif kind == 'cancelled':
            if not cancels:
                out.append(V('cancelled_without_cancel', f'call {i} {cfgm}', **tagd))
        else:
            out.append(V('expect_raised_other_exception', f'call {i} {cfgm}: {what}', **tagd))
        if kind != 'cancelled' and cancels and (first is None or cancels[0][0] < first[0]):
            out.append(V('cancellation_swallowed', f'call {i} {cfgm} cancelled at seq {cancels[0][0]} but ended {kind}', **tagd))
        # its temporary subscription is gone when the call ends: table = table0 + one per call still pending
        pending = sum(1 for j, bj in begins.items() if j != i and bj[0] < e[0] and (j not in ends or ends[j][0] > e[0]))
        n0, n1 = sum(n for _, n in table0), sum(n for _, n in e[6])
        if n1 != n0 + pending and (stop_seq is None or e[0] < stop_seq):
            out.append(V('subscription_not_removed', f'call {i} ended {kind}: {n1} handlers registered, expected {n0} + {pending} pending calls', **tagd))
    # other handlers unaffected: the probe ran exactly once per dispatched event, all events complete
    disp = [r[3] for r in log if r[2] == 'dispatched' and (stop_seq is None or r[0] < stop_seq)]
    for nm in disp:
        if stop_seq is not None and not any(r[2] == 'processed' and r[3] == nm and r[0] < stop_seq for r in log):
            continue  # still queued when the bus was stopped: never processed, by design
        n = sum(1 for r in log if r[2] == 'processed' and r[3] == nm)
        if n != 1:
            out.append(V('other_handlers_affected', f'probe ran {n} times for {nm}'))
        st = res['final'].get(nm)
        if st and st[0] != 'completed':
            out.append(V('other_handlers_affected', f'{nm} ended {st}'))
        # a finished expect() must not leave anything behind on events: the only error results allowed are those of a raising filter (KeyError)
        for hn, status, et in (st[1] if st else []):
            if status == 'error' and et != 'KeyError':
                out.append(V('expect_left_an_error_result_on_an_event', f'{nm}: handler {hn} -> {et}'))
    return out[:6]
