"""C19  @retry makes the promised attempts with the promised waits.  (DESIGN.md 4, C19)"""
from __future__ import annotations

import asyncio
import itertools

from .. import seams
from ..oracles import V

seams.boot()
from bubus.helpers import retry  # noqa: E402

LEVEL = 'model_checking'
RULE = ('retries in {0,1,2,3} x wait in {0, 0.5} x backoff_factor in {1, 2, 0.5, 0 (decaying / vanishing waits)} x timeout 1 s x retry_on in {None, (), (Listed,), (Listed, TimeoutError)}; at every attempt the wrapped function asks '
        'the explorer for its outcome in {ok, slow ok (0.7 x timeout), Listed error, an error of a subclass of the listed class, Unlisted error, overrun (sleeps past the timeout), overrun answered by an Unlisted error raised at the cut-off, caller cancelled during the attempt, Listed error then caller cancelled during the '
        'back-off}: these are free choices, so EVERY outcome sequence is enumerated. Also with a one-slot lax semaphore whose slot is held by somebody else (the call goes on without it after the acquisition time-out). Compared with an independent reference of the documented semantics: number and virtual start times of calls, '
        'return value / identity of the raised exception, cancellation never retried or swallowed. non-trivial = at least two attempts or a cancellation; distinct = distinct outcome sequences per configuration')
ASSUMPTIONS = ['an overrun when retry_on is given without TimeoutError may either propagate at once (unlisted exception) or be retried (failed attempt): the statement allows both readings',
               'virtual time: the function body itself takes no time except where it sleeps']
DISTINCT_BY_SCENARIO = True
OUTCOMES = ['ok', 'listed', 'unlisted', 'overrun', 'cancel_attempt', 'cancel_backoff', 'slow_ok', 'overrun_unlisted', 'sublisted']


class Listed(Exception):
    pass


class Unlisted(Exception):
    pass


class SubListed(Listed):
    """a proper subclass of a listed class: listed, as isinstance() says"""


RETRY_ON = {'none': None, 'listed': (Listed,), 'listed+timeout': (Listed, TimeoutError), 'empty': ()}


class RetryWorld:
    def __init__(self, spec, loop):
        self.spec, self.loop = spec, loop
        self.log = []
        self.calls = []      # (index, start time)
        self.outcomes = []
        self.raised = {}
        self.end = None
        self.second = None
        self.second_result = None

    def rec(self, *f):
        self.loop.activity += 1
        self.log.append((len(self.log) + 1, round(self.loop.now(), 6)) + f)

    async def main(self):
        p = self.spec['p']
        w = self
        loop = self.loop

        semkw = {}
        if p.get('sem'):
            # the function also has a one-slot lax semaphore whose slot somebody else holds: this call queues for sem_timeout, then goes on without the
            # slot (documented) - the retry semantics after that are the same as without a semaphore
            semkw = dict(semaphore_limit=1, semaphore_name='c19sem', semaphore_scope='global', semaphore_lax=True, semaphore_timeout=p['sem_timeout'])
            gate = loop.create_future()

            @retry(wait=0, retries=0, timeout=1000, **semkw)
            async def holder():
                await gate
            self.holder = asyncio.ensure_future(holder())
            await loop.hsleep(0.01)

        @retry(wait=p['wait'], retries=p['retries'], timeout=p['timeout'], backoff_factor=p['bf'], retry_on=RETRY_ON[p['retry_on']], **semkw)
        async def fn():
            if w.second is not None:
                # second call of the SAME decorated function (state kept by the decorator across calls would show here): fixed outcomes
                j = len(w.second)
                w.second.append(loop.now())
                if j == 0 and p['retries'] >= 1:
                    raise Listed('second call, first attempt')
                return ('second', j)
            k = len(w.calls)
            w.calls.append((k, loop.now()))
            if k > p['retries'] + 2:
                raise RuntimeError('runaway')
            o = OUTCOMES[loop.choose('outcome', len(OUTCOMES), k)]
            w.outcomes.append(o)
            w.rec('call', k, o)
            if o == 'ok':
                return ('value', k)
            if o == 'slow_ok':
                await asyncio.sleep(p['timeout'] * 0.7)  # slow, but within the per-attempt timeout
                return ('value', k)
            if o == 'listed':
                ex = Listed(f'listed {k}')
                w.raised[id(ex)] = ('listed', k)
                w.keep.append(ex)
                raise ex
            if o == 'sublisted':
                ex = SubListed(f'sub-listed {k}')
                w.raised[id(ex)] = ('listed', k)
                w.keep.append(ex)
                raise ex
            if o == 'unlisted':
                ex = Unlisted(f'unlisted {k}')
                w.raised[id(ex)] = ('unlisted', k)
                w.keep.append(ex)
                raise ex
            if o == 'overrun':
                await asyncio.sleep(p['timeout'] * 3)
                w.rec('overrun-body-continued', k)
                return ('late', k)
            if o == 'overrun_unlisted':
                # overruns, and answers the cut-off by raising an exception of its own (clean-up code that fails): that exception, not a TimeoutError,
                # is what the attempt ends with
                try:
                    await asyncio.sleep(p['timeout'] * 3)
                except asyncio.CancelledError:
                    ex = Unlisted(f'unlisted at cut-off {k}')
                    w.raised[id(ex)] = ('unlisted', k)
                    w.keep.append(ex)
                    raise ex
                return ('late', k)
            if o == 'cancel_attempt':
                loop.call_later(0.25, w.caller.cancel)
                await asyncio.sleep(p['timeout'] * 3)
                return ('late', k)
            if o == 'cancel_backoff':
                this_wait = p['wait'] * (p['bf'] ** k)
                if k < p['retries'] and this_wait > 0:
                    loop.call_later(this_wait / 2, w.caller.cancel)
                ex = Listed(f'listed-then-cancel {k}')
                w.raised[id(ex)] = ('listed', k)
                w.keep.append(ex)
                raise ex

        self.keep = []
        self.t0 = loop.now() + (p['sem_timeout'] if p.get('sem') else 0.0)
        self.caller = asyncio.ensure_future(fn())
        if p.get('cancel_in_queue'):
            loop.call_later(p['sem_timeout'] / 3, self.caller.cancel)  # the caller is cancelled while it is still queueing for the slot, before any attempt
        try:
            r = await asyncio.shield(self._wait(self.caller))
        except BaseException as e:  # noqa: BLE001
            r = ('harness', repr(e))
        self.end = (loop.now(),) + r
        self.rec('end', r)
        await loop.hsleep(5.0)  # anything still scheduled (a retry after cancellation) would show up as an extra call
        n_first = len(self.calls)
        self.second = []
        try:
            self.second_result = ('returned', await fn())
        except BaseException as e:  # noqa: BLE001
            self.second_result = ('raised', type(e).__name__)
        self.rec('second', tuple(round(t, 4) for t in self.second), self.second_result)
        self.rec('final', n_first)
        if p.get('sem'):
            gate.set_result(None)
            await self.holder

    async def _wait(self, t):
        try:
            v = await t
            return ('returned', v)
        except asyncio.CancelledError:
            return ('cancelled', None) if t.cancelled() else ('cancelled-inner', None)
        except BaseException as e:  # noqa: BLE001
            return ('raised', self.raised.get(id(e)) or ('other', type(e).__name__))

    def result(self, verdict):
        return dict(log=list(self.log), verdict=verdict, calls=list(self.calls), outcomes=list(self.outcomes), end=self.end, t0=getattr(self, 't0', 0.0), second=self.second, second_result=self.second_result,
                    trace_key=(tuple(self.outcomes), self.end and self.end[1:]))

    def teardown(self):
        pass


def make(spec, loop):
    return RetryWorld(spec, loop)


def families(tier):
    out = []
    for r, w, bf, ro in itertools.product((0, 1, 2, 3), (0, 0.5), (1, 2, 0.5, 0), ('none', 'listed', 'listed+timeout', 'empty')):
        if tier != 'thorough' and r == 3 and bf == 1 and w == 0:
            continue
        if bf < 1 and (w == 0 or r < 2):
            continue  # a factor below 1 only shows from the second wait on, and only when there is a wait
        out.append(dict(prop='C19', family='c19.retry', id=f'c19/r{r}-w{w}-b{bf}-{ro}', cfg=dict(bound=0, cap=200000, free=('outcome',), busy=False, horizon=60.0),
                        p=dict(retries=r, wait=w, bf=bf, timeout=1.0, retry_on=ro)))
    for r, w, ro in itertools.product((1, 2), (0.5,), ('none', 'listed', 'listed+timeout')):
        out.append(dict(prop='C19', family='c19.retry_after_lax_semaphore_timeout', id=f'c19/sem-r{r}-w{w}-{ro}', cfg=dict(bound=0, cap=200000, free=('outcome',), busy=False, horizon=60.0),
                        p=dict(retries=r, wait=w, bf=2, timeout=1.0, retry_on=ro, sem=True, sem_timeout=0.3)))
        out.append(dict(prop='C19', family='c19.cancelled_while_queueing_for_the_semaphore', id=f'c19/semcancel-r{r}-w{w}-{ro}', cfg=dict(bound=0, cap=200000, free=('outcome',), busy=False, horizon=60.0),
                        p=dict(retries=r, wait=w, bf=2, timeout=1.0, retry_on=ro, sem=True, sem_timeout=0.3, cancel_in_queue=True)))
    return out


def trigger(spec, res):
    if spec['p'].get('cancel_in_queue'):
        return True  # structural: the cancellation is scheduled at a third of the acquisition time-out, while the slot is held by somebody else
    return len(res['calls']) >= 2 or any(o.startswith('cancel') for o in res['outcomes'])


def reference(p, outcomes):
    """returns list of admissible (n_calls, [start offsets], final) given the chosen outcomes (one per attempt actually made)"""
    listed_retry = True
    res = []

    def go(k, t, starts, allow_timeout_retry):
        starts = starts + [t]
        if k >= len(outcomes):
            return None
        o = outcomes[k]
        last = k >= p['retries']
        wait = p['wait'] * (p['bf'] ** k)
        if o in ('ok', 'slow_ok'):
            return (k + 1, starts, ('returned', ('value', k)))
        if o == 'cancel_attempt':
            return (k + 1, starts, ('cancelled', None))
        if o in ('listed', 'sublisted', 'cancel_backoff'):
            if last or p['retry_on'] == 'empty':  # an empty retry_on lists nothing: every exception propagates at once
                return (k + 1, starts, ('raised', ('listed', k)))
            if o == 'cancel_backoff' and wait > 0:
                return (k + 1, starts, ('cancelled', None))
            return go(k + 1, t + wait, starts, allow_timeout_retry)
        if o == 'unlisted':
            if p['retry_on'] != 'none' or last:
                return (k + 1, starts, ('raised', ('unlisted', k)))
            return go(k + 1, t + wait, starts, allow_timeout_retry)
        if o == 'overrun_unlisted':
            # ends at the cut-off instant with an Unlisted exception: propagates at once when retry_on is given, a failed attempt like any other when it is not
            if p['retry_on'] != 'none' or last:
                return (k + 1, starts, ('raised', ('unlisted', k)))
            return go(k + 1, t + p['timeout'] + wait, starts, allow_timeout_retry)
        if o == 'overrun':
            t_end = t + p['timeout']
            retry_it = p['retry_on'] in ('none', 'listed+timeout') or allow_timeout_retry
            if last or not retry_it:
                return (k + 1, starts, ('raised', ('other', 'TimeoutError')))
            return go(k + 1, t_end + wait, starts, allow_timeout_retry)
        raise KeyError(o)

    if p.get('cancel_in_queue'):
        return [(0, [], ('cancelled', None))]  # cancelled while waiting for the semaphore: no attempt at all, and the cancellation comes out as a cancellation
    for allow in (False, True):
        r = go(0, 0.0, [], allow)
        if r is not None and r not in res:
            res.append(r)
    return res


def oracle(spec, res):
    out = []
    p = spec['p']
    v = res['verdict'][0]
    if v != 'done':
        return [V('retry_hangs', str(res['verdict']))]
    outcomes = res['outcomes']
    t0 = res['t0']
    got_n = len(res['calls'])
    got_starts = [round(t - t0, 4) for _, t in res['calls']]
    got_final = tuple(res['end'][1:]) if res['end'] else None
    refs = reference(p, outcomes)
    tags = dict(retry_on=p['retry_on'], last_outcome=outcomes[-1] if outcomes else '')
    if got_n > p['retries'] + 1:
        out.append(V('more_than_retries_plus_one_calls', f'{got_n} calls, retries={p["retries"]}; outcomes {outcomes}', **tags))
    ok = False
    for n, starts, final in refs:
        if n == got_n and final == got_final and all(abs(a - b) <= 1e-4 for a, b in zip(starts, got_starts)):
            ok = True
    if not ok:
        clause = 'disagrees_with_reference'
        if refs:
            n, starts, final = refs[0]
            if got_final != final and final[0] == 'cancelled':
                clause = 'cancellation_swallowed_or_retried'
            elif n != got_n:
                clause = 'wrong_number_of_attempts'
            elif got_final != final:
                clause = 'wrong_result_or_exception'
            else:
                clause = 'wrong_wait_between_attempts'
        out.append(V(clause, f'p={p} outcomes={outcomes}: calls at {got_starts} -> {got_final}; reference allows {refs}', **tags))
    # the second call of the same decorated function starts afresh: attempt 0 fails (if retries >= 1), then exactly `wait` later attempt 1 succeeds
    sec = res.get('second')
    if sec is not None:
        want_n = 2 if (p['retries'] >= 1 and p['retry_on'] != 'empty') else 1
        want_res = ('raised', 'Listed') if (p['retries'] >= 1 and p['retry_on'] == 'empty') else ('returned', ('second', want_n - 1))
        if len(sec) != want_n or res['second_result'] != want_res:
            out.append(V('second_call_of_the_same_function_differs', f'p={p}: second call made attempts at {sec} -> {res["second_result"]}, expected {want_n} attempts', **tags))
        elif want_n == 2 and abs((sec[1] - sec[0]) - p['wait']) > 1e-4:
            out.append(V('second_call_of_the_same_function_differs', f'p={p}: second call waited {sec[1] - sec[0]:.4f}s before its retry, expected wait*backoff**0 = {p["wait"]}', **tags))
    if any(r[2] == 'overrun-body-continued' for r in res['log']):
        out.append(V('overrunning_attempt_not_cut_off', f'outcomes {outcomes}', **tags))
    return out
