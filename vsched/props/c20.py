"""C20  @retry semaphores bound concurrency and are always released.  (DESIGN.md 4, C20)"""
from __future__ import annotations

import asyncio
import itertools
import re

from .. import seams
from ..loop import Deadlock, Horizon, Livelock, VLoop
from ..oracles import V

seams.boot()
from bubus.helpers import retry  # noqa: E402

LEVEL = 'model_checking'
RULE = ('semaphore_limit L in {1,2}; 2-4 concurrent callers, some arriving later (after or before an earlier caller finished, as the explorer chooses); scopes global / class / self with colliding and distinct semaphore names, two classes, two instances (also with objects whose truth value is False); bodies that wait on the '
        'environment, raise, or overrun the per-attempt timeout (with a retry); callers cancelled while waiting for a slot and while running; semaphore_timeout 0.5 s as a timer target with '
        'semaphore_lax True/False; the whole caller program is run on TWO successive virtual event loops in one execution without clearing the semaphore registry; after each round a black-box '
        'capacity probe (L fresh callers must enter at once, the L+1st must wait). all schedules <= L deviations. non-trivial = some caller had to wait for a slot or was cancelled / timed out; '
        'distinct = distinct recorder traces')
ASSUMPTIONS = ['the multiprocess scope (file locks, real threads) is not part of the statement and not explored',
               'a caller counts as having taken the documented lax path iff semaphore_lax is true and it entered at least semaphore_timeout after its call while its scope was full']


class SvcA:
    pass


class SvcB:
    pass


class SemWorld:
    def __init__(self, spec, loop):
        self.spec, self.loop0 = spec, loop
        self.loop = loop
        self.log = []
        self.seq = 0
        self.round = 0

    def rec(self, kind, *f):
        self.seq += 1
        self.loop.activity += 1
        self.log.append((self.seq, round(self.loop.now(), 6), kind, self.round) + f)

    def build(self):
        p = self.spec['p']
        w = self
        kw = dict(wait=0, retries=p.get('retries', 0), timeout=p.get('timeout', 1.0), semaphore_limit=p['L'], semaphore_scope=p['scope'], semaphore_lax=p['lax'])
        if p.get('sem_timeout') is not None:
            kw['semaphore_timeout'] = p['sem_timeout']

        def mk(name):
            k = dict(kw)
            if name is not None:
                k['semaphore_name'] = name

            @retry(**k)
            async def work(self_, who, kind):
                return await w.body(self_, who, kind)
            return work

        # two methods: with colliding names (same semaphore_name) or distinct
        names = p['names']  # e.g. ('s', 's') colliding or ('s', 't') distinct or (None, None): default = function name (both called 'work')
        SvcA.work = mk(names[0])
        SvcB.work = mk(names[1])
        for cls in (SvcA, SvcB):
            # 'falsy': the objects the methods are bound to have truth value False (an empty pool / inbox: __len__ == 0); a scope is an object, not its truth value
            if p.get('falsy'):
                cls.__len__ = lambda self_: 0
            elif '__len__' in cls.__dict__:
                del cls.__len__
        self.inst = {'a1': SvcA(), 'a2': SvcA(), 'b1': SvcB()}
        if p.get('inherited'):
            # ONE limited method, defined on a base class and inherited by two concrete classes: with scope 'class' each concrete class is a scope of its own
            base = type('SvcBase', (), {'work': mk(names[0])})
            ca, cb = type('SvcA', (base,), {}), type('SvcB', (base,), {})
            self.inst = {'a1': ca(), 'a2': ca(), 'b1': cb()}

    def key_of(self, inst):
        """harness's own notion of the scope key"""
        p = self.spec['p']
        o = self.inst[inst]
        name = p['names'][0 if (type(o).__name__ == 'SvcA' or p.get('inherited')) else 1] or 'work'
        if p['scope'] == 'global':
            return name
        if p['scope'] == 'class':
            return f'{type(o).__name__}.{name}'
        return f'{inst}.{name}'

    async def body(self, self_, who, kind):
        self.rec('enter', who)
        try:
            if kind == 'probe':
                await self.gate  # held by the harness, not an explorer-owned environment wait
                return who
            if kind == 'raise':
                await self.loop.pause(who)
                raise ValueError('boom ' + who)
            if kind == 'overrun':
                n = self.attempts[who] = self.attempts.get(who, 0) + 1
                if n == 1:
                    await asyncio.sleep(5.0)  # cut off by the per-attempt timeout, then retried
                await self.loop.pause(who)
                return who
            await self.loop.pause(who)
            return who
        finally:
            self.rec('exit', who)

    async def caller(self, who, inst, kind):
        self.rec('call', who, self.key_of(inst))
        try:
            r = await self.inst[inst].work(who, kind)
            self.rec('done', who, 'returned')
        except asyncio.CancelledError:
            self.rec('done', who, 'cancelled')
            raise
        except TimeoutError:
            self.rec('done', who, 'TimeoutError')
        except ValueError:
            self.rec('done', who, 'ValueError')
        except BaseException as ex:  # noqa: BLE001
            self.rec('done', who, 'other:' + type(ex).__name__ + ':' + re.sub(r'0x[0-9a-f]+', '0x..', str(ex))[:90])

    async def late_caller(self, who, inst, kind):
        """a caller that arrives later: when, relative to the other callers' progress, is the explorer's choice"""
        await self.loop.pause('arrive:' + who)
        await self.caller(who, inst, kind)

    async def program(self):
        p = self.spec['p']
        self.attempts = {}
        tasks = {}
        for c in p['callers']:
            who, inst, kind = c[:3]
            tasks[who] = asyncio.ensure_future(self.late_caller(who, inst, kind) if len(c) > 3 else self.caller(who, inst, kind))
        if p.get('cancel'):
            asyncio.ensure_future(self.canceller(tasks, p['cancel']))
        for t in tasks.values():
            try:
                await t
            except BaseException:  # noqa: BLE001
                pass
        self.rec('quiescent')
        # black-box capacity probe per scope key used by the callers
        L = p['L']
        for inst in sorted({c[1] for c in p['callers']}):
            key = self.key_of(inst)
            if any(r[2] == 'probe' and r[4] == key for r in self.log if r[3] == self.round):
                continue
            self.gate = self.loop.create_future()
            pts = [asyncio.ensure_future(self.caller(f'probe{j}:{key}', inst, 'probe')) for j in range(L + 1)]
            await self.loop.hsleep(0.05)
            entered = sum(1 for r in self.log if r[2] == 'enter' and r[3] == self.round and r[4].startswith('probe') and r[4].endswith(':' + key))
            self.rec('probe', key, entered)
            self.gate.set_result(None)
            for _ in range(3 * (L + 2)):
                await self.loop.hsleep(0.02)
                if all(t.done() for t in pts):
                    break
            self.rec('probe-done', key, sum(1 for t in pts if t.done()))
            for t in pts:
                if not t.done():
                    t.cancel()

    async def canceller(self, tasks, spec_c):
        who, after = spec_c
        for _ in range(after):
            await self.loop.pause('canceller')
        if not tasks[who].done():
            self.rec('cancel', who)
            tasks[who].cancel()

    def run(self):
        self.build()
        verdict = ('done', None)
        for rnd in range(self.spec['p'].get('rounds', 2)):
            self.round = rnd
            if rnd > 0:
                old = self.loop
                try:
                    old._ready.clear()
                    old._scheduled.clear()
                    old.close()
                except BaseException:  # noqa: BLE001
                    pass
                self.loop = VLoop(old.chooser, horizon=old.horizon, window=old.window, max_targets=old.max_targets, busy=old.busy_choices)
                self.loop.sched_trace = old.sched_trace
            loop = self.loop
            main = loop.create_task(self.program())
            main._log_destroy_pending = False
            try:
                loop.run_until_complete(main)
            except Horizon as e:
                verdict = ('hang', f'round {rnd}: {e}')
                break
            except (Deadlock, Livelock) as e:
                verdict = ('deadlock', f'round {rnd}: {e}')
                break
            except BaseException as e:  # noqa: BLE001
                verdict = ('raised', f'round {rnd}: {type(e).__name__}: {e}')
                break
        return verdict

    def result(self, verdict):
        log = list(self.log)
        return dict(log=log, verdict=verdict, trace_key=(tuple(r[2:] for r in log), verdict[0]))

    def teardown(self):
        if self.loop is not self.loop0:
            try:
                for t in asyncio.all_tasks(self.loop):
                    t._log_destroy_pending = False
                    t.cancel()
                self.loop._ready.clear()
                self.loop._scheduled.clear()
                self.loop.close()
            except BaseException:  # noqa: BLE001
                pass


def make(spec, loop):
    return SemWorld(spec, loop)


def families(tier):
    deep = tier == 'thorough'
    out = []
    cfg = dict(bound=3 if deep else 2, cap=30000 if deep else 1500, window=1.2, max_targets=3, horizon=40.0)
    caller_sets = {
        '2same': [('c1', 'a1', 'pause'), ('c2', 'a1', 'pause')],
        '3same': [('c1', 'a1', 'pause'), ('c2', 'a1', 'pause'), ('c3', 'a1', 'pause')],
        '2inst': [('c1', 'a1', 'pause'), ('c2', 'a2', 'pause'), ('c3', 'a1', 'pause')],
        '2cls': [('c1', 'a1', 'pause'), ('c2', 'b1', 'pause'), ('c3', 'a2', 'pause')],
        'raise': [('c1', 'a1', 'raise'), ('c2', 'a1', 'pause'), ('c3', 'a1', 'raise')],
        'overrun': [('c1', 'a1', 'overrun'), ('c2', 'a1', 'pause')],
        '4mix': [('c1', 'a1', 'pause'), ('c2', 'b1', 'raise'), ('c3', 'a2', 'pause'), ('c4', 'a1', 'pause')],
        # two callers arrive while the scope is partly or fully taken, after an earlier caller has (or has not yet) finished
        '4late': [('c1', 'a1', 'pause'), ('c2', 'a1', 'pause'), ('c3', 'a1', 'pause', 'late'), ('c4', 'a1', 'pause', 'late')],
        '3late2inst': [('c1', 'a1', 'pause'), ('c2', 'a2', 'pause'), ('c3', 'a1', 'pause', 'late'), ('c4', 'a2', 'pause', 'late')],
    }
    for L, scope, names, cs, lax, st, cancel in itertools.product((1, 2), ('global', 'class', 'self'), (('s', 's'), ('s', 't'), (None, None)), caller_sets, (True, False),
                                                                  (None, 0.5), (None, ('c2', 0), ('c2', 1), ('c1', 1))):
        if not deep:
            if cs in ('4mix',) and (L == 2 or cancel is not None or st is not None):
                continue
            if names == (None, None) and (scope != 'global' or cs not in ('2cls', '3same')):
                continue
            if st is None and not lax:
                continue
            if cancel is not None and cs not in ('3same', '2cls', 'raise'):
                continue
            if L == 2 and cs in ('2same', 'overrun', '2inst'):
                continue
            if cs in ('4late', '3late2inst') and (cancel is not None or st is not None or names == ('s', 't')):
                continue
            if st is not None and cs in ('overrun',):
                continue
        p = dict(L=L, scope=scope, names=names, callers=caller_sets[cs], lax=lax, sem_timeout=st, cancel=cancel, retries=1 if cs == 'overrun' else 0, timeout=1.0, rounds=2)
        out.append(dict(prop='C20', family='c20.semaphore', id=f'c20/L{L}-{scope}-{names[0]}{names[1]}-{cs}-lax{int(lax)}-st{st}-x{cancel}', cfg=cfg, p=p))
        if scope == 'class' and cs in ('2cls', '4mix') and cancel is None and names[0] == names[1]:
            out.append(dict(prop='C20', family='c20.semaphore_on_an_inherited_method', id=f'c20/inherit-L{L}-{names[0]}-{cs}-lax{int(lax)}-st{st}', cfg=cfg, p=dict(p, inherited=True)))
        if scope != 'global' and cs in ('2inst', '2cls', '3same', '4mix') and cancel is None and (deep or names != ('s', 't')):
            out.append(dict(prop='C20', family='c20.semaphore_on_falsy_objects', id=f'c20/falsy-L{L}-{scope}-{names[0]}{names[1]}-{cs}-lax{int(lax)}-st{st}', cfg=cfg, p=dict(p, falsy=True)))
    return out


def trigger(spec, res):
    log = res['log']
    calls = {(r[3], r[4]): r[1] for r in log if r[2] == 'call'}
    for r in log:
        if r[2] == 'enter' and (r[3], r[4]) in calls and r[1] > calls[(r[3], r[4])] + 1e-6:
            return True
        if r[2] == 'done' and r[5] in ('cancelled', 'TimeoutError'):
            return True
    return False


def oracle(spec, res):
    out = []
    p = spec['p']
    L = p['L']
    log = res['log']
    v = res['verdict']
    st = p['sem_timeout'] if p['sem_timeout'] is not None else max(p['timeout'], p['timeout'] * (L - 1))
    if v[0] != 'done':
        out.append(V('hang_or_crash', str(v), round=int(str(v[1]).startswith('round 1')) if v[1] else 0))
        return out
    for rnd in range(p.get('rounds', 2)):
        rl = [r for r in log if r[3] == rnd]
        key = {r[4]: r[5] for r in rl if r[2] == 'call'}
        call_t = {r[4]: r[1] for r in rl if r[2] == 'call'}
        call_seq = {r[4]: r[0] for r in rl if r[2] == 'call'}
        active = {}  # key -> set of who
        lax_entries = set()
        entered = set()
        tags = dict(round=rnd, scope=p['scope'])
        for r in rl:
            if r[2] == 'enter':
                who = r[4]
                if who not in key:
                    continue
                k = key[who]
                waited = r[1] - call_t[who]
                s = active.setdefault(k, set())
                first_entry = who not in entered
                entered.add(who)
                # a caller that waited the whole acquisition time-out under semaphore_lax went on WITHOUT a slot (the documented exception), whether or
                # not the scope happened to empty at that very instant; it then runs beside the slot holders and does not count as one of them
                if p['lax'] and waited >= st - 1e-4:
                    lax_entries.add(who)
                if len([x for x in s if x not in lax_entries]) >= L:
                    if who in lax_entries:
                        pass
                    else:
                        out.append(V('limit_exceeded', f'round {rnd}: {who} entered scope {k} with {sorted(s)} already running (limit {L}, waited {waited:.3f}s, lax={p["lax"]})', **tags))
                elif first_entry and waited > 1e-4 and not who.startswith('probe'):
                    # its own scope had a free slot when it entered: did it have one all along since the call?
                    full_since_call = _was_full_throughout(rl, key, k, L, call_seq[who], r[0])
                    if not full_since_call:
                        out.append(V('blocked_although_scope_had_capacity', f'round {rnd}: {who} (scope {k}) waited {waited:.3f}s although its scope was not full', **tags))
                s.add(who)
            elif r[2] == 'exit':
                who = r[4]
                if who in key:
                    active.setdefault(key[who], set()).discard(who)
            elif r[2] == 'done':
                who, how = r[4], r[5]
                if how == 'TimeoutError' and who not in entered:
                    # never ran its body: this is the acquisition time-out (a TimeoutError after the body ran is the per-attempt time-out)
                    if p['lax']:
                        out.append(V('timeout_raised_although_lax', f'round {rnd}: {who}', **tags))
                    if abs((r[1] - call_t[who]) - st) > 1e-3:
                        out.append(V('acquisition_timeout_at_wrong_time', f'round {rnd}: {who} after {r[1] - call_t[who]:.3f}s, semaphore_timeout {st}', **tags))
                if how.startswith('other:'):
                    out.append(V('unexpected_exception', f'round {rnd}: {who}: {how}', **tags))
        for r in rl:
            if r[2] == 'probe' and r[5] != L:
                out.append(V('capacity_changed', f'round {rnd}: scope {r[4]}: {r[5]} of {L + 1} fresh callers entered at once, limit is {L}',
                             direction='leaked' if r[5] < L else 'over_released', **tags))
            if r[2] == 'probe-done' and r[5] != L + 1:
                out.append(V('capacity_changed', f'round {rnd}: scope {r[4]}: only {r[5]} of {L + 1} probe callers ever finished', direction='leaked', **tags))
    return out[:6]


def _was_full_throughout(rl, key, k, L, seq_from, seq_to):
    """True if scope k had >= L running bodies at every instant between seq_from and seq_to"""
    active = set()
    ok = True
    for r in rl:
        if r[0] > seq_to:
            break
        if r[2] == 'enter' and key.get(r[4]) == k:
            active.add(r[4])
        elif r[2] == 'exit' and key.get(r[4]) == k:
            active.discard(r[4])
            if r[0] >= seq_from and len(active) < L:
                # a slot became free; the waiter may take it at the same instant (next loop iteration): not a violation by itself
                pass
        if r[0] >= seq_from and r[0] <= seq_to and r[2] in ('call',) and len(active) < L and r[0] == seq_from:
            ok = False
    return ok
