"""engine self-test: a toy program with a planted atomicity bug and the same program without it"""
import asyncio

from ..oracles import V


class Toy:
    def __init__(self, spec, loop):
        self.spec, self.loop = spec, loop
        self.shared = 0
        self.log = []

    async def worker(self, name, lock):
        if lock is not None:
            await lock.acquire()
        x = self.shared
        await self.loop.pause(name)  # environment wait between read and write
        self.shared = x + 1
        self.log.append((len(self.log), 0.0, 'wrote', name, self.shared))
        self.loop.activity += 1
        if lock is not None:
            lock.release()

    async def main(self):
        lock = asyncio.Lock() if self.spec['variant'] == 'locked' else None
        t1 = asyncio.ensure_future(self.worker('w1', lock))
        if self.spec['variant'] == 'planted':
            await asyncio.sleep(0.1)  # a library-style timer: w2 normally starts after w1 is done
        t2 = asyncio.ensure_future(self.worker('w2', lock))
        await t1
        await t2

    def result(self, verdict):
        return dict(log=list(self.log), shared=self.shared, verdict=verdict, trace_key=(tuple(r[2:] for r in self.log), self.shared))


def make(spec, loop):
    return Toy(spec, loop)


def trigger(spec, res):
    return True


def oracle(spec, res):
    return [] if res['shared'] == 2 else [V('lost_update', f'shared={res["shared"]}')]


def selftest():
    from ..engine import explore_scenario, run_one
    ok = True
    for variant, bound, expect_viol in (('planted', 0, False), ('planted', 1, True), ('locked', 2, False), ('racy', 0, True)):
        spec = dict(prop='toy', family='toy', id=f'toy/{variant}', variant=variant, cfg=dict(bound=bound, cap=2000))
        s = explore_scenario(spec)
        got = s['n_violations'] > 0
        print(f'selftest {variant} bound={bound}: executions={s["executions"]} violations={s["n_violations"]} errors={len(s["errors"])} expected_violation={expect_viol}')
        if got != expect_viol or s['errors']:
            ok = False
            print('  ', s['errors'][:2])
    # determinism: the same prefix twice gives the same trace
    spec = dict(prop='toy', family='toy', id='toy/planted', variant='planted', cfg=dict(bound=1))
    a, b = run_one(spec, (1,)), run_one(spec, (1,))
    if a['result']['trace_key'] != b['result']['trace_key'] or a['points'] != b['points']:
        ok = False
        print('selftest: replay not deterministic')
    return ok
