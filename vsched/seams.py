"""vsched.seams -- harness-side substitutions of module attributes (no source hook in /repo is needed).

Everything here replaces a *source of nondeterminism* by something the explorer owns (DESIGN.md 2.3).
"""
from __future__ import annotations

import logging
import os
import sys
import weakref
from datetime import datetime, timedelta, timezone

_booted = False
S = M = H = None  # bubus.service / bubus.models / bubus.helpers of the tree under test


def boot():
    """import bubus from the tree under test (VERIF_REPO, default /repo) and install the permanent seams"""
    global _booted, S, M, H
    if _booted:
        return
    repo = os.environ.get('VERIF_REPO', '/repo')
    sys.dont_write_bytecode = True
    if repo not in sys.path[:1]:
        sys.path.insert(0, repo)
    logging.disable(logging.CRITICAL)
    import bubus.helpers as _H
    import bubus.models as _M
    import bubus.service as _S

    here = os.path.realpath(os.path.dirname(_S.__file__))
    want = os.path.realpath(os.path.join(repo, 'bubus'))
    if here != want:
        raise RuntimeError(f'seam error: bubus imported from {here}, expected {want}')
    S, M, H = _S, _M, _H
    for mod, attr in ((S, '_global_eventbus_lock'), (S, 'anyio'), (M, 'datetime'), (H, 'PSUTIL_AVAILABLE'),
                      (H, 'GLOBAL_RETRY_SEMAPHORES'), (S.EventBus, 'all_instances')):
        if not hasattr(mod, attr):
            raise RuntimeError(f'seam error: {mod.__name__}.{attr} no longer exists')
    H.PSUTIL_AVAILABLE = False  # psutil.cpu_percent(interval=0.1) blocks real time, log-only
    H.asyncio = _AsyncioWithOwnedThreads()
    M.datetime = VDatetime
    _booted = True


class OrderedWeakSet:
    """stand-in for EventBus.all_instances (a WeakSet, whose iteration order follows object addresses):
    iteration order = ``order`` (bus names) and otherwise creation order"""

    def __init__(self, order=None):
        self._refs: list = []
        self.order = list(order) if order else None

    def add(self, x):
        if not any(r() is x for r in self._refs):
            self._refs.append(weakref.ref(x))

    def discard(self, x):
        self._refs = [r for r in self._refs if r() is not x and r() is not None]

    def remove(self, x):
        self.discard(x)

    def __iter__(self):
        live = [r() for r in self._refs if r() is not None]
        if self.order:
            o = self.order
            nm = lambda b: getattr(b, 'label', None) or b.name
            live.sort(key=lambda b: o.index(nm(b)) if nm(b) in o else len(o))
        return iter(live)

    def __contains__(self, x):
        return any(r() is x for r in self._refs)

    def __len__(self):
        return sum(1 for r in self._refs if r() is not None)


class VDatetime:
    """bubus.models.datetime shim: strictly increasing virtual timestamps (event_created_at is eviction's sort key)"""

    t0 = datetime(2030, 1, 1, tzinfo=timezone.utc)
    n = 0
    min = datetime.min
    max = datetime.max

    last = None

    @classmethod
    def now(cls, tz=None):
        """t0 + virtual time of the running VLoop, bumped by 1 us where needed to stay strictly increasing"""
        cls.n += 1
        vt = 0.0
        try:
            import asyncio
            loop = asyncio.get_running_loop()
            vt = loop.now() if hasattr(loop, 'now') else 0.0
        except RuntimeError:
            pass
        ts = cls.t0 + timedelta(seconds=round(vt, 6))
        if cls.last is not None and ts <= cls.last:
            ts = cls.last + timedelta(microseconds=1)
        cls.last = ts
        return ts

    @classmethod
    def vtime_of(cls, dt):
        return None if dt is None else (dt - cls.t0).total_seconds()

    @classmethod
    def fromisoformat(cls, s):
        return datetime.fromisoformat(s)


class _AsyncioWithOwnedThreads:
    """bubus.helpers sees this instead of the asyncio module: identical, except that to_thread() (real worker threads, invisible to a
    virtual loop) becomes an explorer-owned environment wait followed by a synchronous call of the function"""

    def __getattr__(self, name):
        import asyncio
        return getattr(asyncio, name)

    @staticmethod
    async def to_thread(func, /, *args, **kwargs):
        import asyncio
        loop = asyncio.get_running_loop()
        if hasattr(loop, 'pause'):
            await loop.pause('to_thread')
            return func(*args, **kwargs)
        return await asyncio.to_thread(func, *args, **kwargs)


def reset_globals(bus_order=None, keep_semaphores=False):
    """process-global state that must not survive an execution"""
    boot()
    S._global_eventbus_lock = None
    if hasattr(S, '_inline_processing_root_lock'):
        S._inline_processing_root_lock = None
        S._inline_processing_root_lock_loop = None
    S.EventBus.all_instances = OrderedWeakSet(bus_order)
    if not keep_semaphores:
        H.GLOBAL_RETRY_SEMAPHORES.clear()
    H._active_retry_operations = 0
    H._last_overload_check = 0.0
    VDatetime.n = 0
    VDatetime.last = None


def set_bus_order(order):
    S.EventBus.all_instances.order = list(order) if order else None
