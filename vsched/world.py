"""vsched.world -- scenario interpreter, recorder and state watcher shared by the bus properties.

A scenario (``spec['scn']``) is plain data:

  buses    : {name: {parallel: bool, hist: int|None, wal: bool}}
  order    : bus-iteration order of EventBus.all_instances (a configuration dimension)
  forwards : [(src, dst)]                     src.on('*', dst.dispatch)
  handlers : [{bus, pat, name, prog, kind}]   pat: 'P' (by class) | 's:P' (by type-name string) | '*'
                                              kind: async | sync | amethod | method | astatic
  main     : prog                             actors: [prog]
  settle   : seconds of virtual time main waits for quiescence at the end (harness timer, not a library call)

Programs are straight-line lists of ops (see ``_run``).  Everything the oracles use is recorded harness-side.
"""
from __future__ import annotations

import asyncio
import contextvars
import re

from . import seams

seams.boot()
from bubus import BaseEvent, EventBus  # noqa: E402

WHO: contextvars.ContextVar = contextvars.ContextVar('vsched_who', default='?')
VIA: contextvars.ContextVar = contextvars.ContextVar('vsched_via', default='fwd')


class P(BaseEvent):
    name: str = ''


class C(BaseEvent):
    name: str = ''


class G(BaseEvent):
    name: str = ''


class X(BaseEvent):
    name: str = ''


class Y(BaseEvent):
    name: str = ''


class Z(BaseEvent):
    name: str = ''


class R(BaseEvent):
    name: str = ''
    depth: int = 0


class Q(BaseEvent):
    name: str = ''


class T(BaseEvent[int]):
    """an event with a DECLARED result type (handlers return ints)"""
    name: str = ''


class E(BaseEvent):
    """a 'batch' event that is FALSY while empty (a legitimate subclass: __len__ is its item count)"""
    name: str = ''
    items: list = []

    def __len__(self):
        return len(self.items)


class Ov(BaseEvent):
    """an event class that PINS its event_type (class-level default 'O'): its events carry that name, not the class name 'Ov'"""
    event_type: str = 'O'
    name: str = ''


EVCLS = {c.__name__: c for c in (P, C, G, X, Y, Z, R, Q, T, E)}
EVCLS['O'] = Ov


class Custom(Exception):
    def __init__(self, msg, payload=None):
        super().__init__(msg)
        self.payload = payload


class Falsy(Exception):
    """an exception object whose truth value is False (a 'collection of failures' with no entries): still an exception"""
    def __len__(self):
        return 0


EXC = {'Falsy': Falsy, 'ValueError': ValueError, 'RuntimeError': RuntimeError, 'Custom': Custom, 'TimeoutError': TimeoutError,
       'KeyError': KeyError, 'OSError': OSError, 'CancelledError': asyncio.CancelledError}


def evclass(key: str):
    m = re.match(r'[A-Z]', key)
    return EVCLS[m.group(0)]


class HBus(EventBus):
    """EventBus whose *public* dispatch is observed; forwarding via ``other.dispatch`` goes through it too"""

    world = None
    label = None  # the scenario's name for this bus (differs from .name only where several buses are REQUESTED under one name and the library renames them)

    def dispatch(self, event):
        w = self.world
        if w is None:
            return super().dispatch(event)
        nm = w.name_of(event)
        try:
            r = super().dispatch(event)
        except BaseException as ex:
            w.rec('dispatch', WHO.get(), self.label or self.name, nm, 'raised:' + type(ex).__name__, VIA.get())
            raise
        w.rec('dispatch', WHO.get(), self.label or self.name, nm, 'ok' if r is event else 'other-object', VIA.get())
        return r


class World:
    def __init__(self, spec, loop):
        self.spec, self.loop = spec, loop
        self.scn = spec['scn']
        self.log: list = []
        self.seq = 0
        self.buses: dict = {}
        self.events: dict = {}
        self.by_id: dict = {}
        self.excs: dict = {}
        self.keep: list = []
        self.last_state: dict = {}
        self.last_hist: dict = {}
        self.watch_hist = bool(self.scn.get('watch_hist'))
        self.no_watch = bool(self.scn.get('no_watch'))
        self.rejected: list = []
        self.phase = 'prog'
        self.extra: dict = {}
        self._in_watch = False
        self._seen_errs = {}
        self._keep_errs = []
        seams.set_bus_order(self.scn.get('order'))

    # ---- recorder ---------------------------------------------------------------------------------
    def rec(self, kind, *f):
        self.watch()  # state changes since the previous record get smaller sequence numbers than this record
        self.seq += 1
        self.loop.activity += 1
        self.log.append((self.seq, round(self.loop.now(), 6), kind) + f)
        return self.seq

    def state_of(self, e):
        sig = e.event_completed_signal
        return (e.event_status, bool(sig.is_set()) if sig is not None else None,
                tuple((self.label_of(r.eventbus_name), r.handler_name.rsplit('.', 1)[-1], r.status, repr(r.result)[:24] if not isinstance(r.result, BaseEvent) else 'ev:' + self.name_of(r.result),
                       self.exc_label(r.error)) for r in e.event_results.values()))

    def exc_label(self, err):
        """like exc_name, but two different exception OBJECTS made by the library get different labels (TypeName~k, k = order of first sighting in
        this execution): replacing the recorded error of a result by another object of the same type is a change of that result"""
        if err is None:
            return None
        if id(err) in self.excs:
            return self.excs[id(err)]
        k = self._seen_errs.get(id(err))
        if k is None:
            k = self._seen_errs[id(err)] = len(self._seen_errs) + 1
            self._keep_errs.append(err)  # keeps id(err) from being reused
        return f'{type(err).__name__}~{k}'

    def exc_name(self, err):
        if err is None:
            return None
        return self.excs.get(id(err)) or type(err).__name__

    def watch(self):
        if self._in_watch or self.no_watch:
            return
        self._in_watch = True
        try:
            for nm, e in list(self.events.items()):
                st = self.state_of(e)
                if self.last_state.get(nm) != st:
                    self.last_state[nm] = st
                    self.seq += 1
                    self.log.append((self.seq, round(self.loop.now(), 6), 'state', nm, st))
            if self.watch_hist:
                for bn, b in self.buses.items():
                    h = tuple((self.by_id.get(i, i[-6:]), ev.event_status) for i, ev in b.event_history.items())
                    if self.last_hist.get(bn) != h:
                        self.last_hist[bn] = h
                        self.seq += 1
                        self.log.append((self.seq, round(self.loop.now(), 6), 'hist', bn, h))
        finally:
            self._in_watch = False

    def label_of(self, busname):
        """scenario label of the bus with this (possibly library-generated) name; the raw name where no bus or several buses carry it"""
        hit = [b.label for b in self.buses.values() if b.name == busname]
        return hit[0] if len(hit) == 1 else busname

    @staticmethod
    def _first_not_none(*xs):
        return next((x for x in xs if x is not None), None)

    def _lookup(self, local, key):
        """the handler's own event of that key, else the world's; by identity, never by truth value (an event class may be falsy)"""
        return self._first_not_none(local.get(key), self.events.get(key))

    def name_of(self, event):
        return self.by_id.get(event.event_id) or f'?{event.event_type}'

    # ---- events -----------------------------------------------------------------------------------
    def new_event(self, key, ctx_name, opts):
        base = key if ctx_name is None else f'{key}<{ctx_name}'
        nm, k = base, 1
        while nm in self.events:
            k += 1
            nm = f'{base}#{k}'
        kw = {}
        if 'timeout' in opts:
            kw['event_timeout'] = opts['timeout']
        if 'parent' in opts:
            kw['event_parent_id'] = self.events[opts['parent']].event_id
        if 'depth' in opts:
            kw['depth'] = opts['depth']
        e = evclass(key)(name=nm, **kw)
        self.events[nm] = e
        self.by_id[e.event_id] = nm
        return e

    # ---- program interpreter ------------------------------------------------------------------------
    async def _run(self, who, prog, cur=None, hctx=None):
        local: dict = {'self': cur} if cur is not None else {}
        ctxn = None if cur is None else f'{hctx}:{cur.name}'
        for op in prog:
            k = op[0]
            if k == 'pause':
                await self.loop.pause(who, stallable=(len(op) > 1 and op[1] == 'stall'))
                self.rec('resumed', who)
            elif k == 'sleep':
                await asyncio.sleep(op[1])
                self.rec('slept', who, op[1])
            elif k == 'guarded_pause':  # ('guarded_pause', d): wait on the environment; whatever ends the wait, clean-up takes d seconds (an async finally)
                try:
                    await self.loop.pause(who)
                    self.rec('resumed', who)
                finally:
                    self.rec('cleanup-begin', who)
                    await asyncio.sleep(op[1])
                    self.rec('cleanup-end', who)
            elif k == 'yield':
                await asyncio.sleep(0)
            elif k == 'disp':
                e = self._disp(who, op, local, ctxn)
                if e is not None and op[3] == 'await':
                    await self._await(who, e)
            elif k == 'await':
                e = self._lookup(local, op[1])
                if e is not None:
                    await self._await(who, e)
            elif k == 'step':  # ('step', bus): call the public EventBus.step() of that bus from here (a handler pumping a worker bus by hand)
                self.rec('step-begin', who, op[1])
                await self.buses[op[1]].step()
                self.rec('step-end', who, op[1])
            elif k == 'cancel_loop':  # ('cancel_loop', bus): an outsider (a supervisor cancelling all tasks, a test fixture) cancels the bus's background task WITHOUT calling stop()
                t = getattr(self.buses[op[1]], '_runloop_task', None)
                self.rec('cancel-loop', who, op[1], t is not None and not t.done())
                if t is not None:
                    t.cancel()
            elif k == 'redisp_named':  # ('redisp_named', bus, prefix): dispatch the first existing event whose name starts with prefix to bus (again / as well)
                e = next((x for nm, x in list(self.events.items()) if nm.startswith(op[2])), None)
                if e is not None:
                    tok = VIA.set('prog')
                    try:
                        self.buses[op[1]].dispatch(e)
                    except Exception:  # noqa: BLE001
                        pass
                    finally:
                        VIA.reset(tok)
            elif k == 'await_named':  # ('await_named', prefix): await the first event whose name starts with prefix, whoever dispatched it (e.g. a sibling handler)
                e = next((x for nm, x in list(self.events.items()) if nm.startswith(op[1]) and not any(x is r for r in self.rejected)), None)
                if e is not None:
                    await self._await(who, e)
            elif k == 'gather_await':  # ('gather_await', [(bus, key), ...]): dispatch the children, then await them CONCURRENTLY (asyncio.gather: one task per await, each inheriting this handler's context)
                evs = [self._disp(who, ('disp', b, key, 'late'), local, ctxn) for b, key in op[1]]
                await asyncio.gather(*[self._await(who, e) for e in evs if e is not None])
            elif k == 'await_all':  # ('await_all', prefix[, n]): await, in creation order, (the first n of) the accepted events whose name starts with prefix
                todo = [e for nm, e in list(self.events.items()) if nm.startswith(op[1]) and not any(e is r for r in self.rejected)]
                for e in todo[:op[2] if len(op) > 2 else None]:
                    await self._await(who, e)
            elif k == 'recurse':  # ('recurse', bus, mode, maxdepth): self-recursive dispatch of the handler's own event type
                d = getattr(cur, 'depth', 0)
                if d < op[3]:
                    e = self._disp(who, ('disp', op[1], 'R', op[2], {'depth': d + 1}), local, ctxn)
                    if e is not None and op[2] == 'await':
                        await self._await(who, e)
            elif k == 'redisp':
                self._redisp(who, op, local)
            elif k == 'burst':  # ('burst', bus, key, K): K fire-and-forget dispatches in one synchronous stretch
                self._burst(who, op, local, ctxn)
            elif k == 'reoffer':  # dispatch again every event whose dispatch was rejected so far
                self._reoffer(op[1])
            elif k == 'raise':
                self._raise(who, op[1])
            elif k == 'ret':
                return self._retval(who, op[1])
            elif k == 'idle':
                t = op[2] if len(op) > 2 else None
                self.rec('idle-begin', who, op[1])
                await self.buses[op[1]].wait_until_idle(timeout=t)
                b = self.buses[op[1]]
                self.rec('idle-end', who, op[1], b.event_queue.qsize() if b.event_queue else 0,
                         tuple(sorted(self.name_of(x) for x in b.events_pending)),
                         tuple(sorted(self.name_of(x) for x in b.events_started)))
            elif k == 'stop':
                t = op[2] if len(op) > 2 else None
                self.rec('stop-begin', who, op[1], t)
                await self.buses[op[1]].stop(timeout=t)
                self.rec('stop-end', who, op[1], t)
            elif k == 'mark':
                self.rec('mark', who, op[1])
            elif k == 'bus?':  # record what event.event_bus says right now, inside the handler
                try:
                    eb = self.label_of(cur.event_bus.name)
                except BaseException as ex:  # noqa: BLE001
                    eb = 'raised:' + type(ex).__name__
                self.rec('bus?', who, hctx, eb)
            elif k == 'await_tmo':  # ('await_tmo', bus, key, seconds): dispatch a child and await it under the caller's own asyncio.wait_for
                e = self._disp(who, ('disp', op[1], op[2], 'late'), local, ctxn)
                if e is not None:
                    self.rec('await-begin', who, e.name)
                    try:
                        await asyncio.wait_for(e, timeout=op[3])
                        self.rec('await-end', who, e.name, 'same')
                    except TimeoutError:
                        self.rec('await-cancelled', who, e.name)
            elif k == 'try_await':  # dispatch + await a child, swallowing whatever the await raises
                e = self._disp(who, ('disp',) + tuple(op[1:]), local, ctxn)
                if e is not None:
                    try:
                        await self._await(who, e)
                    except asyncio.CancelledError:
                        raise
                    except BaseException:  # noqa: BLE001
                        pass
            elif k == 'result':  # ('result', evkey, raise_if_any): call the accessor and record what it did
                e = self._lookup(local, op[1])
                try:
                    val = await e.event_result(raise_if_any=op[2], raise_if_none=False)
                    self.rec('accessor', who, e.name, op[2], 'value', repr(val)[:40])
                except asyncio.CancelledError as ex:
                    if id(ex) not in self.excs and not any(r.error is ex for r in e.event_results.values()):
                        raise  # this task is being cancelled (the exception is nobody's recorded error)
                    self.rec('accessor', who, e.name, op[2], 'raised', self.exc_name(ex))  # a handler's own CancelledError, re-raised by the accessor
                except BaseException as ex:
                    self.rec('accessor', who, e.name, op[2], 'raised', self.exc_name(ex))
            else:
                raise RuntimeError(f'unknown op {op}')
        return None

    def _run_sync(self, who, prog, cur, hctx):
        local: dict = {'self': cur}
        ctxn = f'{hctx}:{cur.name}'
        for op in prog:
            k = op[0]
            if k == 'disp':
                self._disp(who, op, local, ctxn)
            elif k == 'redisp':
                self._redisp(who, op, local)
            elif k == 'burst':
                self._burst(who, op, local, ctxn)
            elif k == 'raise':
                self._raise(who, op[1])
            elif k == 'ret':
                return self._retval(who, op[1])
            elif k == 'mark':
                self.rec('mark', who, op[1])
            else:
                raise RuntimeError(f'op {op} not allowed in a sync handler')
        return None

    def _raise(self, who, kind):
        """raise a harness-made exception whose identity is tracked; 'Chained' = raise ... from ... (has __cause__ and __context__)"""
        if kind == 'Chained':
            try:
                raise KeyError('inner cause')
            except KeyError as inner:
                ex = Custom(f'boom {who}', payload={'k': 1})
                self.excs[id(ex)] = f'Chained@{who}'
                self.keep.append(ex)
                raise ex from inner
        ex = EXC[kind](f'boom {who}')
        self.excs[id(ex)] = f'{kind}@{who}'
        self.keep.append(ex)
        raise ex

    def _retval(self, who, v):
        if isinstance(v, str) and v.startswith('exc:'):
            ex = EXC[v[4:]](f'returned {who}')
            self.excs[id(ex)] = f'{v[4:]}@{who}'
            self.keep.append(ex)
            return ex
        return v

    def _disp(self, who, op, local, ctxn):
        _, bus, key, mode = op[:4]
        opts = op[4] if len(op) > 4 else {}
        e = self.new_event(key, ctxn, opts)
        local[key] = e
        tok = VIA.set('prog')
        try:
            self.buses[bus].dispatch(e)
        except Exception:
            self.rejected.append(e)
            return None
        finally:
            VIA.reset(tok)
        return e

    def _burst(self, who, op, local, ctxn):
        for i in range(op[3]):
            self._disp(who, ('disp', op[1], f'{op[2]}{i + 1}', 'ff'), local, ctxn)

    def _reoffer(self, bus):
        again, self.rejected = self.rejected, []
        tok = VIA.set('prog')
        try:
            for e in again:
                try:
                    self.buses[bus].dispatch(e)
                except Exception:
                    self.rejected.append(e)
        finally:
            VIA.reset(tok)

    def _redisp(self, who, op, local):
        e = self._lookup(local, op[2])
        if e is None:
            return
        tok = VIA.set('prog')
        try:
            self.buses[op[1]].dispatch(e)
        except Exception:
            pass
        finally:
            VIA.reset(tok)

    async def _await(self, who, e):
        self.rec('await-begin', who, e.name)
        try:
            r = await e
        except asyncio.CancelledError:
            self.rec('await-cancelled', who, e.name)
            raise
        except BaseException as ex:
            self.rec('await-raised', who, e.name, self.exc_name(ex))
            raise
        self.rec('await-end', who, e.name, 'same' if r is e else 'other')

    # ---- handlers ---------------------------------------------------------------------------------
    def mkhandler(self, h):
        w, bus, hname, prog = self, h['bus'], h['name'], h['prog']
        kind = h.get('kind', 'async')
        fname = h.get('fname', hname)  # the function's __name__ (two functions may share one)

        def entered(e):
            who = f'{bus}.{hname}({w.name_of(e)})'
            try:
                eb = w.label_of(e.event_bus.name)
            except BaseException as ex:
                eb = 'raised:' + type(ex).__name__
            w.rec('enter', bus, hname, w.name_of(e), eb, who, w.events.get(w.name_of(e)) is e)
            return who

        if kind in ('async', 'amethod', 'astatic', 'abusmethod'):
            async def body(e):
                who = entered(e)
                tok = WHO.set(who)
                try:
                    r = await w._run(who, prog, cur=e, hctx=hname)
                    w.rec('exit', bus, hname, w.name_of(e), 'ok', who)
                    return r
                except asyncio.CancelledError:
                    w.rec('exit', bus, hname, w.name_of(e), 'cancelled', who)
                    raise
                except BaseException:
                    w.rec('exit', bus, hname, w.name_of(e), 'raised', who)
                    raise
                finally:
                    WHO.reset(tok)
        else:
            def body(e):
                who = entered(e)
                tok = WHO.set(who)
                try:
                    r = w._run_sync(who, prog, e, hname)
                    w.rec('exit', bus, hname, w.name_of(e), 'ok', who)
                    return r
                except BaseException:
                    w.rec('exit', bus, hname, w.name_of(e), 'raised', who)
                    raise
                finally:
                    WHO.reset(tok)

        if kind in ('async', 'sync'):
            fn = body
            fn.__name__ = fname
            fn.__qualname__ = fname
        elif kind in ('amethod', 'method'):
            if kind == 'amethod':
                async def meth(self_, e):
                    return await body(e)
            else:
                def meth(self_, e):
                    return body(e)
            meth.__name__ = fname
            cls = type('Svc_' + hname, (), {fname: meth})
            inst = cls()
            self.keep.append(inst)
            fn = getattr(inst, fname)
        elif kind in ('abusmethod', 'busmethod'):
            # a bound method of an EventBus instance itself (a component written as `class X(EventBus)` that subscribes its own methods):
            # __self__ is a bus, but the method is not .dispatch - it is an ordinary handler, not a forwarder
            owner = self.buses[h.get('owner', bus)]
            if kind == 'abusmethod':
                async def bmeth(self_, e):
                    return await body(e)
            else:
                def bmeth(self_, e):
                    return body(e)
            bmeth.__name__ = fname
            bmeth.__qualname__ = 'HBus.' + fname
            import types
            fn = types.MethodType(bmeth, owner)
        elif kind == 'astatic':
            async def st(e):
                return await body(e)
            st.__name__ = fname
            cls = type('St_' + hname, (), {fname: staticmethod(st)})
            self.keep.append(cls)
            fn = getattr(cls, fname)
        else:
            raise RuntimeError(kind)
        self.keep.append(fn)
        return fn

    # ---- main -------------------------------------------------------------------------------------
    def _register(self, h):
        fn = self.mkhandler(h)
        for pat in (h['pat'] if isinstance(h['pat'], list) else [h['pat']]):
            if pat == '*':
                self.buses[h['bus']].on('*', fn)
            elif pat.startswith('s:'):
                self.buses[h['bus']].on(pat[2:], fn)
            else:
                self.buses[h['bus']].on(EVCLS[pat], fn)

    def build(self):
        for name, cfg in self.scn['buses'].items():
            kw = {}
            if cfg.get('wal'):
                kw['wal_path'] = cfg['wal']
            b = HBus(name=cfg.get('req_name', name), parallel_handlers=cfg.get('parallel', False), max_history_size=cfg.get('hist', 50), **kw)
            b.world = self
            b.label = name
            self.buses[name] = b
        # a second EventBus constructed with the name of an existing one (legitimate: the library warns and renames the newcomer); kept alive, never used
        self.twins = [HBus(name=n) for n in self.scn.get('dup_names', [])]
        for t in self.twins:
            t.world = self
        if self.scn.get('reg'):
            # explicit registration order: ('h', index into handlers) | ('f', src, dst); replaces forwards / fwd_first
            for r in self.scn['reg']:
                if r[0] == 'f':
                    self.buses[r[1]].on('*', self.buses[r[2]].dispatch)
                else:
                    self._register(self.scn['handlers'][r[1]])
            return
        if self.scn.get('fwd_first'):
            for a, b in self.scn.get('forwards', []):
                self.buses[a].on('*', self.buses[b].dispatch)
        for h in self.scn['handlers']:
            fn = self.mkhandler(h)
            for pat in (h['pat'] if isinstance(h['pat'], list) else [h['pat']]):
                if pat == '*':
                    self.buses[h['bus']].on('*', fn)
                elif pat.startswith('s:'):
                    self.buses[h['bus']].on(pat[2:], fn)
                else:
                    self.buses[h['bus']].on(EVCLS[pat], fn)
        if not self.scn.get('fwd_first'):
            for a, b in self.scn.get('forwards', []):
                self.buses[a].on('*', self.buses[b].dispatch)
        for a, cls, b in self.scn.get('fwd_types', []):
            self.buses[a].on(EVCLS[cls], self.buses[b].dispatch)

    async def main(self):
        import warnings

        with warnings.catch_warnings():
            warnings.simplefilter('ignore')
            self.build()
            tasks = []
            for i, prog in enumerate(self.scn.get('actors', [])):
                tasks.append(asyncio.ensure_future(self._actor(f'actor{i}', prog)))
            WHO.set('main')
            await self._run('main', self.scn['main'])
            self.phase = 'actors'
            for t in tasks:
                # join by polling a harness timer: an actor blocked in a stalled environment wait is simply left behind
                while not t.done() and not self.loop.stalled and self.scn.get('join_actors', True):
                    await self.loop.hsleep(0.25)
            self.phase = 'settle'
            await self.settle(self.scn.get('settle', 1.0))
            self.phase = 'final'
            self.extra['live_envwaits'] = [w[0] for w in self.loop.envwaits if not w[1].done() and not w[2]]
            self.rec('final')

    async def _actor(self, who, prog):
        WHO.set(who)
        try:
            await self._run(who, prog)
            self.rec('actor-done', who)
        except asyncio.CancelledError:
            raise
        except BaseException as ex:
            self.rec('actor-raised', who, type(ex).__name__)

    async def settle(self, limit):
        """wait (harness timers only) until nothing moved for two 0.25 s windows and all queues are empty, at most ``limit`` s"""
        t_end = self.loop.now() + limit
        quiet = 0
        while self.loop.now() < t_end and quiet < 2:
            mark = self.seq
            await self.loop.hsleep(0.25)
            busy = self.seq != mark or any(b.event_queue is not None and b.event_queue.qsize() for b in self.buses.values())
            busy = busy or any(not w[1].done() and not w[2] for w in self.loop.envwaits) and not self.loop.stalled
            quiet = 0 if busy else quiet + 1

    def teardown(self):
        for b in self.buses.values():
            b._is_running = False
            if b.event_queue is not None:
                try:
                    b.event_queue.shutdown()
                except BaseException:
                    pass

    # ---- result -----------------------------------------------------------------------------------
    def snapshot(self):
        evs = {}
        for nm, e in self.events.items():
            sig = e.event_completed_signal
            pid = e.event_parent_id
            evs[nm] = dict(
                status=e.event_status, sig=bool(sig.is_set()) if sig is not None else None, path=[self.label_of(n) for n in e.event_path],
                parent=None if pid is None else self.by_id.get(pid, 'unknown:' + pid[-6:]),
                results=[dict(bus=self.label_of(r.eventbus_name), h=r.handler_name.rsplit('.', 1)[-1], status=r.status,
                              value=repr(r.result)[:40] if not isinstance(r.result, BaseEvent) else 'ev:' + self.name_of(r.result),
                              err=self.exc_name(r.error), errtype=type(r.error).__name__ if r.error is not None else None,
                              started_v=seams.VDatetime.vtime_of(r.started_at), completed_v=seams.VDatetime.vtime_of(r.completed_at),
                              children=[self.name_of(c) for c in r.event_children]) for r in e.event_results.values()])
        buses = {}
        for bn, b in self.buses.items():
            buses[bn] = dict(q=b.event_queue.qsize() if b.event_queue is not None else None,
                             hist=[(self.by_id.get(i, i[-6:]), ev.event_status) for i, ev in b.event_history.items()],
                             queue=[self.name_of(x) for x in list(getattr(b.event_queue, '_queue', []) or [])] if b.event_queue is not None else [],
                             running=bool(b._is_running), nhandlers={k: len(v) for k, v in b.handlers.items() if v})
        return dict(events=evs, buses=buses)

    def result(self, verdict):
        try:
            self.watch()
            final = self.snapshot()
        except BaseException as ex:  # pragma: no cover
            final = dict(events={}, buses={}, snapshot_error=repr(ex))
        log = list(self.log)  # teardown may still append to self.log
        return dict(log=log, final=final, verdict=verdict, phase=self.phase, extra=self.extra,
                    trace_key=(tuple(r[2:] for r in log), verdict[0]))


def make(spec, loop):
    return World(spec, loop)
